//! Plans (explicit, serialisable descriptions of one run), their dispatch, and minimisation.

use crate::report::RunOut;
use crate::compat;
use crate::conc;
use crate::crash;
use crate::fault;
use crate::seq;
use crate::twin;
use crate::wire;
use crate::world::{Backend, Entry};
use serde::{Deserialize, Serialize};

#[derive(Clone, Debug, Serialize, Deserialize)]
pub enum Plan {
    Seq(seq::SeqPlan),
    Twin(twin::TwinPlan),
    Iso(twin::IsoPlan),
    Wire(wire::WirePlan),
    Conc(conc::ConcPlan),
    Fault(fault::FaultPlan),
    Crash(crash::CrashPlan),
    Compat(compat::CompatPlan),
}

#[derive(Clone, Debug, Serialize, Deserialize, PartialEq)]
pub enum JobKind {
    Seq { backend: Backend, entry: Entry, focus: seq::Focus },
    Twin { mode: twin::TwinMode },
    Iso { backend: Backend, entry: Entry },
    Wire { backend: Backend },
    Conc { backend: Backend, entry: Entry },
    /// scheduled batches of two threads on SQLite, one served by another process (xproc.rs)
    ConcXproc { entry: Entry },
    Fault { entry: Entry, layer: fault::FaultLayer },
    Crash { entry: Entry },
    Compat,
    /// C10 small-scope enumeration (exhaustive over its grid; run index = case index)
    SnapGrid { backend: Backend, entry: Entry },
    /// C02/C08 small-scope enumeration
    ParentGrid { backend: Backend, entry: Entry },
}

#[derive(Clone, Debug)]
pub struct Job {
    pub name: String,
    pub kind: JobKind,
    pub quick: u64,
    pub thorough: u64,
}

pub fn gen(kind: &JobKind, seed: u64, idx: u64, thorough: bool) -> Plan {
    match kind {
        JobKind::Seq { backend, entry, focus } => Plan::Seq(seq::gen_plan(seed, *backend, *entry, *focus, thorough)),
        JobKind::Twin { mode } => Plan::Twin(twin::gen_plan(seed, *mode, thorough)),
        JobKind::Iso { backend, entry } => Plan::Iso(twin::gen_iso(seed, *backend, *entry, thorough)),
        JobKind::Wire { backend } => Plan::Wire(wire::gen_plan(seed, *backend, thorough)),
        JobKind::Conc { backend, entry } => Plan::Conc(conc::gen_plan(seed, *backend, *entry, thorough)),
        JobKind::ConcXproc { entry } => Plan::Conc(conc::gen_plan_xproc(seed, *entry, thorough)),
        JobKind::Fault { entry, layer } => Plan::Fault(fault::gen_plan(seed, *entry, *layer, thorough)),
        JobKind::Crash { entry } => Plan::Crash(crash::gen_plan(seed, *entry, thorough)),
        JobKind::Compat => Plan::Compat(compat::gen_plan(seed, idx)),
        JobKind::SnapGrid { backend, entry } => Plan::Seq(seq::gen_snapgrid(seed, idx, *backend, *entry)),
        JobKind::ParentGrid { backend, entry } => Plan::Seq(seq::gen_parentgrid(seed, idx, *backend, *entry)),
    }
}

pub fn exec(plan: &Plan) -> RunOut {
    match plan {
        Plan::Seq(p) => seq::exec(p),
        Plan::Twin(p) => twin::exec(p),
        Plan::Iso(p) => twin::exec_iso(p),
        Plan::Wire(p) => wire::exec(p),
        Plan::Conc(p) => conc::exec(p),
        Plan::Fault(p) => fault::exec(p),
        Plan::Crash(p) => crash::exec(p),
        Plan::Compat(p) => compat::exec(p),
    }
}

pub fn scenario_name(plan: &Plan) -> &'static str {
    match plan {
        Plan::Seq(_) => "seq",
        Plan::Twin(_) => "twin",
        Plan::Iso(_) => "iso",
        Plan::Wire(_) => "wire",
        Plan::Conc(_) => "conc",
        Plan::Fault(_) => "fault",
        Plan::Crash(_) => "crash",
        Plan::Compat(_) => "compat",
    }
}

pub fn size(plan: &Plan) -> usize {
    match plan {
        Plan::Seq(p) => p.ops.len(),
        Plan::Twin(p) => p.ops.len(),
        Plan::Iso(p) => p.ops.len(),
        Plan::Wire(p) => p.ops.len() + p.setup.len(),
        Plan::Fault(p) => p.ops.len(),
        Plan::Crash(p) => p.ops.len(),
        Plan::Compat(_) => 1,
        Plan::Conc(p) => p.prefix.len() + p.batch.iter().map(|t| t.len()).sum::<usize>() + p.sched.replay.as_ref().map(|r| r.windows(2).filter(|w| w[0] != w[1]).count()).unwrap_or(0),
    }
}

fn candidates(plan: &Plan) -> Vec<Plan> {
    match plan {
        Plan::Seq(p) => seq::shrink(p).into_iter().map(Plan::Seq).collect(),
        Plan::Twin(p) => twin::shrink(p).into_iter().map(Plan::Twin).collect(),
        Plan::Iso(p) => twin::shrink_iso(p).into_iter().map(Plan::Iso).collect(),
        Plan::Wire(p) => wire::shrink(p).into_iter().map(Plan::Wire).collect(),
        Plan::Conc(p) => conc::shrink(p).into_iter().map(Plan::Conc).collect(),
        Plan::Fault(p) => fault::shrink(p).into_iter().map(Plan::Fault).collect(),
        Plan::Crash(p) => crash::shrink(p).into_iter().map(Plan::Crash).collect(),
        Plan::Compat(_) => vec![],
    }
}

/// Greedy delta-debugging: keep a candidate iff the same property *and* the same oracle fire.
pub fn minimise(plan: &Plan, prop: &str, oracle: &str, max_execs: usize, max_secs: f64) -> (Plan, usize) {
    let start = std::time::Instant::now();
    // concurrent plans are first pinned to the explicit schedule they took
    let mut cur = match plan {
        Plan::Conc(p) => Plan::Conc(conc::pin_schedule(p)),
        other => other.clone(),
    };
    let mut execs = 0usize;
    'outer: loop {
        for cand in candidates(&cur) {
            if execs >= max_execs || start.elapsed().as_secs_f64() > max_secs {
                break 'outer;
            }
            execs += 1;
            let out = exec(&cand);
            if out.harness_error.is_none() && out.has(prop, oracle) {
                cur = cand;
                continue 'outer;
            }
        }
        break;
    }
    (cur, execs)
}

#[derive(Clone, Debug, Serialize, Deserialize)]
pub struct ReplayFile {
    pub property: String,
    pub oracle: String,
    pub message: String,
    pub seed: u64,
    pub scenario: String,
    pub job: String,
    pub original_size: usize,
    pub minimised_size: usize,
    pub plan: Plan,
}
