//! Simulated transport: requests enter the real actix service (built as `main` and the repo's
//! tests build it); the harness decides header bytes, path text, method and the body as a stream
//! of chunks with scheduling points, stalls and mid-body connection errors.

use crate::model::{Mismatch, Req, Resp, Urg};
use crate::sched::{self, Site};
use crate::world::{panic_msg, Instance, SKEW_US};
use actix_http::{Payload, Request};
use actix_service::Service;
use actix_web::body::MessageBody;
use actix_web::dev::ServiceResponse;
use actix_web::error::PayloadError;
use actix_web::http::header::{HeaderName, HeaderValue};
use actix_web::{test, App};
use bytes::Bytes;
use futures::Stream;
use serde::{Deserialize, Serialize};
use std::future::Future;
use std::pin::Pin;
use std::rc::Rc;
use std::sync::Arc;
use std::task::{Context, Poll};
use taskchampion_sync_server::WebServer;
use uuid::Uuid;

pub const CT_HS: &str = "application/vnd.taskchampion.history-segment";
pub const CT_SNAP: &str = "application/vnd.taskchampion.snapshot";
pub const MAX_BODY: usize = 100 * 1024 * 1024;

thread_local! {
    static SYS: actix_rt::SystemRunner = {
        let s = actix_rt::System::new();
        // The runtime's clock is the simulator's: paused, it moves only when every task of this
        // runtime waits on a timer, and then jumps straight to the earliest one. Timers in handlers
        // (upload idle timeouts and the like) therefore cost no real time and fire deterministically.
        s.block_on(async { tokio::time::pause() });
        s
    };
}

pub fn block_on<F: Future>(f: F) -> F::Output {
    SYS.with(|s| s.block_on(f))
}

#[derive(Clone, Debug)]
pub struct RawResp {
    pub status: u16,
    pub headers: Vec<(String, Vec<u8>)>,
    pub body: Bytes,
    /// the service returned `Err` instead of a response (no middleware applied)
    pub service_err: bool,
}

impl RawResp {
    pub fn header(&self, name: &str) -> Option<&[u8]> {
        self.headers
            .iter()
            .find(|(k, _)| k.eq_ignore_ascii_case(name))
            .map(|(_, v)| v.as_slice())
    }
    pub fn header_count(&self, name: &str) -> usize {
        self.headers.iter().filter(|(k, _)| k.eq_ignore_ascii_case(name)).count()
    }
    pub fn header_str(&self, name: &str) -> Option<String> {
        self.header(name).map(|v| String::from_utf8_lossy(v).to_string())
    }
}

type CallFn = dyn Fn(Request) -> Pin<Box<dyn Future<Output = RawResp>>>;

/// An actix service bound to the thread that created it.
pub struct HttpApp {
    call: Box<CallFn>,
}

fn boxed<S, B>(svc: S) -> HttpApp
where
    S: Service<Request, Response = ServiceResponse<B>, Error = actix_web::Error> + 'static,
    B: MessageBody + 'static,
{
    let svc = Rc::new(svc);
    HttpApp {
        call: Box::new(move |req| {
            let svc = svc.clone();
            Box::pin(async move {
                match svc.call(req).await {
                    Ok(resp) => {
                        let status = resp.status().as_u16();
                        let headers = resp
                            .headers()
                            .iter()
                            .map(|(k, v)| (k.as_str().to_string(), v.as_bytes().to_vec()))
                            .collect();
                        let body = match actix_web::body::to_bytes(resp.into_body()).await {
                            Ok(b) => b,
                            Err(_) => Bytes::from_static(b"<body error>"),
                        };
                        RawResp {
                            status,
                            headers,
                            body,
                            service_err: false,
                        }
                    }
                    Err(e) => {
                        let r = e.error_response();
                        RawResp {
                            status: r.status().as_u16(),
                            headers: r
                                .headers()
                                .iter()
                                .map(|(k, v)| (k.as_str().to_string(), v.as_bytes().to_vec()))
                                .collect(),
                            body: Bytes::new(),
                            service_err: true,
                        }
                    }
                }
            })
        }),
    }
}

impl HttpApp {
    /// Build the service exactly as the repository's tests and `main` do. Must be called (and the
    /// result used) on one thread.
    pub fn new(web: &WebServer) -> HttpApp {
        let web = web.clone();
        block_on(async move {
            let app = test::init_service(App::new().configure(|c| web.config(c))).await;
            boxed(app)
        })
    }

    /// The future of one request (not driven): lets a caller interleave several requests on one worker.
    pub fn start(&self, w: WireReq) -> Pin<Box<dyn Future<Output = RawResp>>> {
        (self.call)(w.build())
    }

    pub fn send(&self, w: WireReq) -> Result<RawResp, String> {
        let req = w.build();
        let r = std::panic::catch_unwind(std::panic::AssertUnwindSafe(|| block_on((self.call)(req))));
        r.map_err(|e| panic_msg(&e))
    }
}

/// How a body is cut into network chunks.
#[derive(Clone, Debug, Serialize, Deserialize, PartialEq)]
pub enum Chunking {
    Whole,
    /// fixed chunk size
    Fixed(u32),
    /// explicit cut points (offsets, ascending)
    Cuts(Vec<u32>),
    /// every byte its own chunk (short bodies only)
    Bytes1,
}

pub fn chunk_body(body: &Bytes, ch: &Chunking) -> Vec<Bytes> {
    if body.is_empty() {
        return vec![];
    }
    match ch {
        Chunking::Whole => vec![body.clone()],
        Chunking::Fixed(n) => {
            let n = (*n).max(1) as usize;
            let mut v = Vec::new();
            let mut i = 0;
            while i < body.len() {
                let e = (i + n).min(body.len());
                v.push(body.slice(i..e));
                i = e;
            }
            v
        }
        Chunking::Cuts(cuts) => {
            let mut v = Vec::new();
            let mut i = 0usize;
            for c in cuts {
                let c = (*c as usize).min(body.len());
                if c > i {
                    v.push(body.slice(i..c));
                    i = c;
                }
            }
            if i < body.len() {
                v.push(body.slice(i..));
            }
            v
        }
        Chunking::Bytes1 => (0..body.len()).map(|i| body.slice(i..i + 1)).collect(),
    }
}

struct BodyStream {
    chunks: std::collections::VecDeque<Bytes>,
    /// fail with a connection error once this many chunks were delivered
    fail_after: Option<usize>,
    delivered: usize,
    /// insert empty chunks (legal in a stream) before these chunk indices
    empties: Vec<usize>,
    /// the network is slow: before a chunk (or the end) the stream may report "not ready yet",
    /// which lets other requests of the same worker run (async interleaving at await points)
    pend: Option<crate::rng::Rng>,
    just_pended: bool,
    /// a slow client: before chunk i (i = number of chunks: before the end of the body) nothing
    /// arrives for this many simulated microseconds
    stall: Option<(usize, i64)>,
    sleeping: Option<Pin<Box<tokio::time::Sleep>>>,
}

impl Stream for BodyStream {
    type Item = Result<Bytes, PayloadError>;
    fn poll_next(mut self: Pin<&mut Self>, cx: &mut Context<'_>) -> Poll<Option<Self::Item>> {
        if !self.just_pended {
            let pend_now = match self.pend.as_mut() {
                Some(r) => r.chance(1, 2),
                None => false,
            };
            if pend_now {
                self.just_pended = true;
                cx.waker().wake_by_ref();
                return Poll::Pending;
            }
        }
        self.just_pended = false;
        if let Some((at, us)) = self.stall {
            if self.delivered >= at {
                if self.sleeping.is_none() {
                    self.sleeping = Some(Box::pin(tokio::time::sleep(std::time::Duration::from_micros(us.max(0) as u64))));
                }
                match self.sleeping.as_mut().unwrap().as_mut().poll(cx) {
                    Poll::Pending => return Poll::Pending,
                    Poll::Ready(()) => {
                        self.sleeping = None;
                        self.stall = None;
                        // the simulated clock follows (and other simulated threads may run meanwhile)
                        sched::sleep_us(us, Site::Chunk);
                    }
                }
            }
        }
        sched::point(Site::Chunk);
        if let Some(k) = self.fail_after {
            if self.delivered >= k {
                self.fail_after = None;
                self.chunks.clear();
                return Poll::Ready(Some(Err(PayloadError::Incomplete(None))));
            }
        }
        let d = self.delivered;
        if let Some(pos) = self.empties.iter().position(|e| *e == d) {
            self.empties.remove(pos);
            return Poll::Ready(Some(Ok(Bytes::new())));
        }
        match self.chunks.pop_front() {
            Some(c) => {
                self.delivered += 1;
                Poll::Ready(Some(Ok(c)))
            }
            None => Poll::Ready(None),
        }
    }
}

/// A request as it appears on the wire (after HTTP/1.1 decoding, which is stubbed).
#[derive(Clone, Debug)]
pub struct WireReq {
    pub method: String,
    pub path: String,
    pub headers: Vec<(String, Vec<u8>)>,
    pub chunks: Vec<Bytes>,
    pub fail_after: Option<usize>,
    pub empties: Vec<usize>,
    /// seed of the "chunk not ready yet" pattern (None: every chunk is ready at once)
    pub pending_seed: Option<u64>,
    /// slow client: (before chunk i, simulated microseconds without data)
    pub stall: Option<(usize, i64)>,
    /// protocol version of the request line: 0 = HTTP/1.1, 1 = HTTP/1.0 (an old relay), 2 = HTTP/2
    pub version: u8,
}

impl WireReq {
    pub fn build(self) -> Request {
        let method = actix_web::http::Method::from_bytes(self.method.as_bytes())
            .unwrap_or(actix_web::http::Method::GET);
        let mut tr = test::TestRequest::default().method(method).uri(&self.path);
        tr = match self.version {
            1 => tr.version(actix_web::http::Version::HTTP_10),
            2 => tr.version(actix_web::http::Version::HTTP_2),
            _ => tr,
        };
        for (k, v) in &self.headers {
            if let (Ok(n), Ok(val)) = (HeaderName::from_bytes(k.as_bytes()), HeaderValue::from_bytes(v)) {
                tr = tr.append_header((n, val));
            }
        }
        let req = tr.to_request();
        let stream = BodyStream {
            chunks: self.chunks.into(),
            fail_after: self.fail_after,
            delivered: 0,
            empties: self.empties,
            pend: self.pending_seed.map(crate::rng::Rng::new),
            just_pended: false,
            stall: self.stall,
            sleeping: None,
        };
        let boxed: Pin<Box<dyn Stream<Item = Result<Bytes, PayloadError>>>> = Box::pin(stream);
        let (req, _) = req.replace_payload(Payload::from(boxed));
        req
    }
}

/// The well-formed wire form of a protocol request.
pub fn wire_for(req: &Req, chunking: &Chunking) -> Option<WireReq> {
    let cid = |c: &Uuid| ("X-Client-Id".to_string(), c.to_string().into_bytes());
    Some(match req {
        Req::CreateClient { .. } => return None,
        Req::AddVersion { c, parent, data } => WireReq {
            method: "POST".into(),
            path: format!("/v1/client/add-version/{parent}"),
            headers: vec![cid(c), ("Content-Type".into(), CT_HS.as_bytes().to_vec())],
            chunks: chunk_body(&Bytes::from(data.as_ref().clone()), chunking),
            fail_after: None,
            empties: vec![],
            pending_seed: None,
            stall: None,
            version: 0,
        },
        Req::GetChild { c, parent } => WireReq {
            method: "GET".into(),
            path: format!("/v1/client/get-child-version/{parent}"),
            headers: vec![cid(c)],
            chunks: vec![],
            fail_after: None,
            empties: vec![],
            pending_seed: None,
            stall: None,
            version: 0,
        },
        Req::AddSnapshot { c, v, data } => WireReq {
            method: "POST".into(),
            path: format!("/v1/client/add-snapshot/{v}"),
            headers: vec![cid(c), ("Content-Type".into(), CT_SNAP.as_bytes().to_vec())],
            chunks: chunk_body(&Bytes::from(data.as_ref().clone()), chunking),
            fail_after: None,
            empties: vec![],
            pending_seed: None,
            stall: None,
            version: 0,
        },
        Req::GetSnapshot { c } => WireReq {
            method: "GET".into(),
            path: "/v1/client/snapshot".into(),
            headers: vec![cid(c)],
            chunks: vec![],
            fail_after: None,
            empties: vec![],
            pending_seed: None,
            stall: None,
            version: 0,
        },
    })
}

fn parse_id(raw: &RawResp, name: &str) -> Result<Uuid, String> {
    match raw.header(name) {
        None => Err(format!("missing {name}")),
        Some(v) => {
            let s = std::str::from_utf8(v).map_err(|_| format!("{name} not text"))?;
            // any spelling a client's uuid parser accepts carries the id
            Uuid::parse_str(s.trim()).map_err(|_| format!("{name} unparsable: {s}"))
        }
    }
}

/// Decode an HTTP response into a protocol outcome for the given request kind, and check the
/// exact encoding (C14): status, required headers, absence of headers that do not apply.
pub fn decode(req: &Req, raw: &RawResp) -> (Resp, Vec<Mismatch>) {
    let mut mm = Vec::new();
    let mut enc = |msg: String| {
        mm.push(Mismatch {
            oracle: "http.encoding",
            props: &["C14"],
            msg: format!("{} -> status {}: {}", req.short(), raw.status, msg),
        })
    };
    let has = |n: &str| raw.header(n).is_some();
    let s = raw.status;
    let resp = if s >= 500 {
        Resp::Error(format!("HTTP {} {}", s, String::from_utf8_lossy(&raw.body)))
    } else {
        match req {
            Req::CreateClient { .. } => Resp::Error("not an HTTP request".into()),
            Req::AddVersion { .. } => match s {
                200 => {
                    let urg = match raw.header("X-Snapshot-Request") {
                        None => Some(Urg::None),
                        Some(b"urgency=low") => Some(Urg::Low),
                        Some(b"urgency=high") => Some(Urg::High),
                        Some(o) => {
                            enc(format!("bad X-Snapshot-Request {:?}", String::from_utf8_lossy(o)));
                            None
                        }
                    };
                    if raw.header_count("X-Snapshot-Request") > 1 || raw.header_count("X-Version-Id") > 1 {
                        enc("duplicated protocol header".into());
                    }
                    if has("X-Parent-Version-Id") {
                        enc("X-Parent-Version-Id on an accepted version".into());
                    }
                    match parse_id(raw, "X-Version-Id") {
                        Ok(id) => Resp::AvOk {
                            id,
                            urg: urg.unwrap_or(Urg::None),
                        },
                        Err(e) => {
                            enc(e);
                            Resp::Refused(200)
                        }
                    }
                }
                409 => {
                    if has("X-Version-Id") || has("X-Snapshot-Request") {
                        enc("X-Version-Id / X-Snapshot-Request on a conflict".into());
                    }
                    match parse_id(raw, "X-Parent-Version-Id") {
                        Ok(expected) => Resp::AvConflict { expected },
                        Err(e) => {
                            enc(e);
                            Resp::Refused(409)
                        }
                    }
                }
                o => Resp::Refused(o),
            },
            Req::GetChild { .. } => match s {
                200 => {
                    if raw.header_str("Content-Type").as_deref() != Some(CT_HS) {
                        enc(format!("content type {:?}", raw.header_str("Content-Type")));
                    }
                    if has("X-Snapshot-Request") {
                        enc("X-Snapshot-Request on get-child-version".into());
                    }
                    match (parse_id(raw, "X-Version-Id"), parse_id(raw, "X-Parent-Version-Id")) {
                        (Ok(id), Ok(parent)) => Resp::GcFound {
                            id,
                            parent,
                            data: Arc::new(raw.body.to_vec()),
                        },
                        (a, b) => {
                            enc(format!("{:?} {:?}", a.err(), b.err()));
                            Resp::Refused(200)
                        }
                    }
                }
                404 | 410 => {
                    if has("X-Version-Id") || has("X-Parent-Version-Id") || has("X-Snapshot-Request") {
                        enc("protocol header on not-found/gone".into());
                    }
                    if s == 404 {
                        Resp::GcNotFound
                    } else {
                        Resp::GcGone
                    }
                }
                o => Resp::Refused(o),
            },
            Req::AddSnapshot { .. } => match s {
                200 => {
                    if has("X-Version-Id") || has("X-Parent-Version-Id") || has("X-Snapshot-Request") {
                        enc("protocol header on add-snapshot".into());
                    }
                    Resp::AsOk
                }
                404 => Resp::NoSuchClient,
                o => Resp::Refused(o),
            },
            Req::GetSnapshot { .. } => match s {
                200 => {
                    if raw.header_str("Content-Type").as_deref() != Some(CT_SNAP) {
                        enc(format!("content type {:?}", raw.header_str("Content-Type")));
                    }
                    if has("X-Parent-Version-Id") || has("X-Snapshot-Request") {
                        enc("inapplicable protocol header on snapshot".into());
                    }
                    match parse_id(raw, "X-Version-Id") {
                        Ok(id) => Resp::GsFound {
                            id,
                            data: Arc::new(raw.body.to_vec()),
                        },
                        Err(e) => {
                            enc(e);
                            Resp::Refused(200)
                        }
                    }
                }
                404 => {
                    if has("X-Version-Id") {
                        enc("X-Version-Id on 404".into());
                    }
                    Resp::GsNone
                }
                o => Resp::Refused(o),
            },
        }
    };
    (resp, mm)
}

/// C20 monitor: every response forbids storage.
pub fn check_cache_control(what: &str, raw: &RawResp) -> Option<Mismatch> {
    let ok = raw
        .headers
        .iter()
        .filter(|(k, _)| k.eq_ignore_ascii_case("cache-control"))
        .any(|(_, v)| {
            String::from_utf8_lossy(v)
                .to_ascii_lowercase()
                .split(',')
                .any(|d| d.trim() == "no-store")
        });
    if ok {
        None
    } else {
        Some(Mismatch {
            oracle: "http.cache_control",
            props: &["C20"],
            msg: format!(
                "{} -> status {}{}: no Cache-Control: no-store (headers: {:?})",
                what,
                raw.status,
                if raw.service_err { " (service error)" } else { "" },
                raw.headers
                    .iter()
                    .map(|(k, v)| format!("{}={}", k, String::from_utf8_lossy(v)))
                    .collect::<Vec<_>>()
            ),
        })
    }
}

/// Execute a well-formed protocol request through HTTP on this thread's app.
pub fn call_http(inst: &Instance, app: &HttpApp, req: &Req, chunking: &Chunking) -> (Resp, Option<RawResp>, Vec<Mismatch>) {
    let w = match wire_for(req, chunking) {
        Some(w) => w,
        None => {
            SKEW_US.with(|s| s.set(inst.skew_us));
            return (inst.call_lib(req), None, vec![]);
        }
    };
    call_http_wire(inst, app, req, w)
}

/// Send an explicit wire form of protocol request `req` and decode the answer for it.
pub fn call_http_wire(inst: &Instance, app: &HttpApp, req: &Req, w: WireReq) -> (Resp, Option<RawResp>, Vec<Mismatch>) {
    SKEW_US.with(|s| s.set(inst.skew_us));
    match app.send(w) {
        Ok(raw) => {
            let (resp, mut mm) = decode(req, &raw);
            if let Some(m) = check_cache_control(&req.short(), &raw) {
                mm.push(m);
            }
            (resp, Some(raw), mm)
        }
        Err(p) => (Resp::Panic(p), None, vec![]),
    }
}
