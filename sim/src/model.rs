//! Reference model of the sync protocol: no storage, no concurrency, a few vectors.
//!
//! `apply` takes a concrete request and the response the implementation gave, checks the response
//! against the set of outcomes the properties allow, and advances the model state (binding
//! server-chosen ids from the response).

use serde::{Deserialize, Serialize};
use std::collections::{BTreeMap, BTreeSet};
use std::sync::Arc;
use uuid::Uuid;

pub type Id = Uuid;
pub type Data = Arc<Vec<u8>>;

#[derive(Clone, Copy, PartialEq, Eq, Debug, PartialOrd, Ord, Serialize, Deserialize)]
pub enum Urg {
    None,
    Low,
    High,
}

#[derive(Clone, Debug, PartialEq)]
pub enum Resp {
    AvOk { id: Id, urg: Urg },
    AvConflict { expected: Id },
    GcFound { id: Id, parent: Id, data: Data },
    GcNotFound,
    GcGone,
    AsOk,
    GsFound { id: Id, data: Data },
    GsNone,
    /// library: `Err(NoSuchClient)`; HTTP: 404 from add-snapshot
    NoSuchClient,
    /// CreateClient done
    Created,
    /// library `Err(Other)` / HTTP 5xx
    Error(String),
    /// HTTP 4xx that is not a protocol outcome
    Refused(u16),
    Panic(String),
}

impl Resp {
    pub fn class(&self) -> &'static str {
        match self {
            Resp::AvOk { urg: Urg::None, .. } => "av_ok_none",
            Resp::AvOk { urg: Urg::Low, .. } => "av_ok_low",
            Resp::AvOk { urg: Urg::High, .. } => "av_ok_high",
            Resp::AvConflict { .. } => "av_conflict",
            Resp::GcFound { .. } => "gc_found",
            Resp::GcNotFound => "gc_notfound",
            Resp::GcGone => "gc_gone",
            Resp::AsOk => "as_ok",
            Resp::GsFound { .. } => "gs_found",
            Resp::GsNone => "gs_none",
            Resp::NoSuchClient => "no_such_client",
            Resp::Created => "created",
            Resp::Error(_) => "error",
            Resp::Refused(_) => "refused",
            Resp::Panic(_) => "panic",
        }
    }
    pub fn short(&self) -> String {
        match self {
            Resp::AvOk { id, urg } => format!("AvOk({},{:?})", sid(id), urg),
            Resp::AvConflict { expected } => format!("AvConflict({})", sid(expected)),
            Resp::GcFound { id, parent, data } => {
                format!("GcFound({},{},{}B)", sid(id), sid(parent), data.len())
            }
            Resp::GsFound { id, data } => format!("GsFound({},{}B)", sid(id), data.len()),
            Resp::Error(e) => format!("Error({})", e.chars().take(120).collect::<String>()),
            Resp::Panic(e) => format!("Panic({})", e.chars().take(120).collect::<String>()),
            other => format!("{:?}", other),
        }
    }
}

pub fn sid(id: &Id) -> String {
    if id.is_nil() {
        "nil".into()
    } else if crate::world::numeric_ids() {
        // digit-only ids share a long prefix: the distinguishing part is the tail
        let s = id.simple().to_string();
        format!("..{}", &s[24..])
    } else {
        id.simple().to_string()[..8].to_string()
    }
}

#[derive(Clone, Debug)]
pub enum Req {
    CreateClient { c: Id },
    AddVersion { c: Id, parent: Id, data: Data },
    GetChild { c: Id, parent: Id },
    AddSnapshot { c: Id, v: Id, data: Data },
    GetSnapshot { c: Id },
}

impl Req {
    pub fn client(&self) -> Id {
        match self {
            Req::CreateClient { c }
            | Req::AddVersion { c, .. }
            | Req::GetChild { c, .. }
            | Req::AddSnapshot { c, .. }
            | Req::GetSnapshot { c } => *c,
        }
    }
    pub fn kind(&self) -> &'static str {
        match self {
            Req::CreateClient { .. } => "create",
            Req::AddVersion { .. } => "av",
            Req::GetChild { .. } => "gc",
            Req::AddSnapshot { .. } => "as",
            Req::GetSnapshot { .. } => "gs",
        }
    }
    pub fn short(&self) -> String {
        match self {
            Req::CreateClient { c } => format!("Create[{}]", sid(c)),
            Req::AddVersion { c, parent, data } => {
                format!("AddVersion[{}]({},{}B)", sid(c), sid(parent), data.len())
            }
            Req::GetChild { c, parent } => format!("GetChild[{}]({})", sid(c), sid(parent)),
            Req::AddSnapshot { c, v, data } => {
                format!("AddSnapshot[{}]({},{}B)", sid(c), sid(v), data.len())
            }
            Req::GetSnapshot { c } => format!("GetSnapshot[{}]", sid(c)),
        }
    }
}

#[derive(Clone, Debug)]
pub struct MVersion {
    pub id: Id,
    pub parent: Id,
    pub data: Data,
}

#[derive(Clone, Debug)]
pub struct MSnap {
    pub version: Id,
    pub data: Data,
    /// time range (µs) in which the snapshot was stored
    pub ts_lo: i64,
    pub ts_hi: i64,
    /// versions accepted since it was stored
    pub since: u32,
    /// position along the chain: 0 = the id the chain started from, i = i-th accepted version
    pub pos: usize,
}

#[derive(Clone, Debug, Default)]
pub struct MClient {
    pub exists: bool,
    /// parent id of the first accepted version
    pub base: Option<Id>,
    pub versions: Vec<MVersion>,
    pub snap: Option<MSnap>,
}

impl MClient {
    pub fn latest(&self) -> Id {
        self.versions.last().map(|v| v.id).unwrap_or(Uuid::nil())
    }
    pub fn child_of(&self, p: &Id) -> Option<&MVersion> {
        self.versions.iter().find(|v| v.parent == *p)
    }
}

#[derive(Clone, Copy, Debug, PartialEq, Eq)]
pub enum SnapDecision {
    Accept(usize),
    Decline,
    /// v is the non-nil id the chain started from, inside the window: left open by the property
    Either(usize),
}

#[derive(Clone, Debug)]
pub struct Mismatch {
    pub oracle: &'static str,
    pub props: &'static [&'static str],
    pub msg: String,
}

#[derive(Clone, Copy, Debug, Serialize, Deserialize, PartialEq)]
pub struct Cfg {
    pub days: i64,
    pub versions: u32,
}

#[derive(Clone, Debug)]
pub struct Model {
    pub clients: BTreeMap<Id, MClient>,
    pub cfg: Cfg,
    /// latched counter convention: does the versions-since measure include the request itself?
    pub conv_after: Option<bool>,
    pub issued: BTreeSet<Id>,
    pub quoted: BTreeSet<Id>,
    /// a pending open-corner AddSnapshot: (client, v, data, pos, t_lo, t_hi)
    pub pending_corner: Option<(Id, Id, Data, usize, i64, i64)>,
}

const DAY_US: i128 = 86_400_000_000;

pub fn urg_for(target: i128, measure: i128) -> Urg {
    let high = target * 3 / 2;
    if measure >= high {
        Urg::High
    } else if measure >= target {
        Urg::Low
    } else {
        Urg::None
    }
}

fn days_between(now_us: i64, ts_us: i64) -> i128 {
    // chrono's num_days truncates toward zero
    (now_us as i128 - ts_us as i128) / DAY_US
}

impl Model {
    pub fn new(cfg: Cfg) -> Self {
        Model {
            clients: BTreeMap::new(),
            cfg,
            conv_after: None,
            issued: BTreeSet::new(),
            quoted: BTreeSet::new(),
            pending_corner: None,
        }
    }

    pub fn client(&self, c: &Id) -> Option<&MClient> {
        self.clients.get(c).filter(|cl| cl.exists)
    }

    /// Would AddVersion(p) be accepted now (for an existing client)?
    pub fn would_accept(&self, c: &Id, p: &Id) -> Option<bool> {
        self.client(c)
            .map(|cl| cl.versions.is_empty() || cl.latest() == *p)
    }

    pub fn snapshot_decision(&self, c: &Id, v: &Id) -> SnapDecision {
        let cl = match self.client(c) {
            Some(cl) => cl,
            None => return SnapDecision::Decline,
        };
        if v.is_nil() {
            return SnapDecision::Decline;
        }
        let snapv = cl.snap.as_ref().map(|s| s.version);
        if snapv == Some(*v) {
            return SnapDecision::Decline;
        }
        // the five most recent versions, newest first; then (if fewer than five) the base
        let n = cl.versions.len();
        let mut steps = 0;
        let mut i = n;
        while steps < 5 {
            if i == 0 {
                // reached the id the chain started from
                if let Some(b) = cl.base {
                    if !b.is_nil() && b == *v {
                        return SnapDecision::Either(0);
                    }
                }
                return SnapDecision::Decline;
            }
            let ver = &cl.versions[i - 1];
            if ver.id == *v {
                return SnapDecision::Accept(i);
            }
            if snapv == Some(ver.id) {
                return SnapDecision::Decline;
            }
            i -= 1;
            steps += 1;
        }
        SnapDecision::Decline
    }

    fn time_urgs(&self, snap: &MSnap, t_lo: i64, t_hi: i64) -> BTreeSet<Urg> {
        let mut s = BTreeSet::new();
        for now in [t_lo, t_hi] {
            for ts in [
                snap.ts_lo,
                snap.ts_hi,
                snap.ts_lo.div_euclid(1_000_000) * 1_000_000,
                snap.ts_hi.div_euclid(1_000_000) * 1_000_000,
            ] {
                s.insert(urg_for(self.cfg.days as i128, days_between(now, ts)));
            }
        }
        s
    }

    /// Allowed urgencies under the (before, after) counter conventions.
    pub fn allowed_urgency(
        &self,
        cl: &MClient,
        t_lo: i64,
        t_hi: i64,
    ) -> (BTreeSet<Urg>, BTreeSet<Urg>) {
        match &cl.snap {
            None => {
                let s: BTreeSet<Urg> = [Urg::High].into_iter().collect();
                (s.clone(), s)
            }
            Some(snap) => {
                let tu = self.time_urgs(snap, t_lo, t_hi);
                let cb = urg_for(self.cfg.versions as i128, snap.since as i128);
                let ca = urg_for(self.cfg.versions as i128, snap.since as i128 + 1);
                (
                    tu.iter().map(|t| (*t).max(cb)).collect(),
                    tu.iter().map(|t| (*t).max(ca)).collect(),
                )
            }
        }
    }

    /// Check `resp` against the model and advance. `t_lo..=t_hi` is the simulated-time range
    /// (µs) during which the request executed. `http`: the request entered through HTTP (AddVersion
    /// creates unknown clients; not-found and no-such-client are both 404).
    pub fn apply(&mut self, req: &Req, resp: &Resp, t_lo: i64, t_hi: i64, http: bool) -> Vec<Mismatch> {
        let mut mm = Vec::new();
        let unexpected = |what: &str, exp: String| -> String {
            format!("{}: {} -> got {}, model allows {}", what, req.short(), resp.short(), exp)
        };
        match resp {
            Resp::Error(_) | Resp::Panic(_) | Resp::Refused(_) => {
                let (oracle, props): (&'static str, &'static [&'static str]) = match req {
                    // (C06/C15: a body within the size limit must be accepted, whatever its size or bytes)
                    Req::AddVersion { .. } => ("av.error", &["C02", "C12", "C14", "C03", "C06", "C15"]),
                    Req::GetChild { .. } => ("gc.error", &["C08", "C14", "C03"]),
                    Req::AddSnapshot { .. } => ("as.error", &["C10", "C14", "C03", "C06", "C15"]),
                    Req::GetSnapshot { .. } => ("gs.error", &["C11", "C14", "C03"]),
                    Req::CreateClient { .. } => ("create.error", &["C13"]),
                };
                mm.push(Mismatch {
                    oracle,
                    props,
                    msg: unexpected("well-formed request failed with no injected fault", "a protocol outcome".into()),
                });
                return mm;
            }
            _ => {}
        }
        match req {
            Req::CreateClient { c } => {
                let cl = self.clients.entry(*c).or_default();
                cl.exists = true;
            }
            Req::AddVersion { c, parent, data } => {
                self.quoted.insert(*parent);
                let exists = self.client(c).is_some();
                if !exists {
                    if http {
                        self.clients.entry(*c).or_default().exists = true;
                    } else {
                        if *resp != Resp::NoSuchClient {
                            mm.push(Mismatch {
                                oracle: "av.unknown_client",
                                props: &["C02"],
                                msg: unexpected("unknown client", "NoSuchClient".into()),
                            });
                        }
                        return mm;
                    }
                }
                let cl = self.clients.get(c).unwrap().clone();
                let accept = cl.versions.is_empty() || cl.latest() == *parent;
                if accept {
                    match resp {
                        Resp::AvOk { id, urg } => {
                            if id.is_nil() {
                                mm.push(Mismatch {
                                    oracle: "av.nil_id",
                                    props: &["C02"],
                                    msg: unexpected("accepted version got the nil id", "non-nil".into()),
                                });
                            }
                            if self.issued.contains(id) || self.quoted.contains(id) {
                                mm.push(Mismatch {
                                    oracle: "av.reused_id",
                                    props: &["C02"],
                                    msg: unexpected("accepted version id was issued or quoted before", "a fresh id".into()),
                                });
                            }
                            // urgency
                            let (a_before, a_after) = self.allowed_urgency(&cl, t_lo, t_hi);
                            let in_b = a_before.contains(urg);
                            let in_a = a_after.contains(urg);
                            let ok = match self.conv_after {
                                None => {
                                    if in_b && !in_a {
                                        self.conv_after = Some(false);
                                    } else if in_a && !in_b {
                                        self.conv_after = Some(true);
                                    }
                                    in_a || in_b
                                }
                                Some(false) => in_b,
                                Some(true) => in_a,
                            };
                            if !ok {
                                let snapinfo = cl.snap.as_ref().map(|s| {
                                    format!(
                                        "snapshot age_us={} since={} targets days={} versions={} conv_after={:?}",
                                        t_lo as i128 - s.ts_lo as i128, s.since, self.cfg.days, self.cfg.versions, self.conv_after
                                    )
                                });
                                mm.push(Mismatch {
                                    oracle: "av.urgency",
                                    props: &["C12", "C14"],
                                    msg: unexpected(
                                        "wrong snapshot urgency",
                                        format!("{:?}/{:?} ({:?})", a_before, a_after, snapinfo),
                                    ),
                                });
                            }
                            let clm = self.clients.get_mut(c).unwrap();
                            if clm.versions.is_empty() {
                                clm.base = Some(*parent);
                            }
                            clm.versions.push(MVersion {
                                id: *id,
                                parent: *parent,
                                data: data.clone(),
                            });
                            if let Some(s) = clm.snap.as_mut() {
                                s.since = s.since.saturating_add(1);
                            }
                            self.issued.insert(*id);
                        }
                        _ => {
                            mm.push(Mismatch {
                                oracle: "av.decision",
                                props: &["C02", "C08", "C14"],
                                msg: unexpected("AddVersion on the latest (or empty chain) not accepted", "AvOk".into()),
                            });
                        }
                    }
                } else {
                    match resp {
                        Resp::AvConflict { expected } if *expected == cl.latest() => {}
                        Resp::AvConflict { .. } => mm.push(Mismatch {
                            oracle: "av.conflict_names_latest",
                            props: &["C02", "C14"],
                            msg: unexpected("conflict does not name the latest", format!("AvConflict({})", sid(&cl.latest()))),
                        }),
                        Resp::AvOk { id, .. } => {
                            // adopt nothing: the chain is forked; record the id so later checks see it
                            self.issued.insert(*id);
                            mm.push(Mismatch {
                                oracle: "av.decision",
                                props: &["C02", "C01", "C08", "C14"],
                                msg: unexpected("AddVersion on a stale parent accepted", format!("AvConflict({})", sid(&cl.latest()))),
                            });
                        }
                        _ => mm.push(Mismatch {
                            oracle: "av.decision",
                            props: &["C02", "C14"],
                            msg: unexpected("wrong outcome", format!("AvConflict({})", sid(&cl.latest()))),
                        }),
                    }
                }
            }
            Req::GetChild { c, parent } => {
                self.quoted.insert(*parent);
                let cl = match self.client(c) {
                    Some(cl) => cl,
                    None => {
                        let ok = if http { *resp == Resp::GcNotFound } else { *resp == Resp::NoSuchClient };
                        if !ok {
                            mm.push(Mismatch {
                                oracle: "gc.unknown_client",
                                props: &["C08", "C14", "C09"],
                                msg: unexpected("never-seen client", "not-found".into()),
                            });
                        }
                        return mm;
                    }
                };
                if let Some(v) = cl.child_of(parent) {
                    match resp {
                        Resp::GcFound { id, parent: p, data } => {
                            if *id != v.id || *p != v.parent {
                                mm.push(Mismatch {
                                    oracle: "gc.ids",
                                    props: &["C07", "C08", "C01", "C06", "C14"],
                                    msg: unexpected("child has wrong ids", format!("GcFound({},{})", sid(&v.id), sid(&v.parent))),
                                });
                            }
                            if **data != *v.data {
                                mm.push(Mismatch {
                                    oracle: "gc.bytes",
                                    props: &["C06", "C07", "C14"],
                                    msg: unexpected(
                                        "payload differs from the upload",
                                        format!("{}B fnv={:x} (got fnv={:x})", v.data.len(), crate::rng::fnv(&v.data), crate::rng::fnv(data)),
                                    ),
                                });
                            }
                        }
                        _ => mm.push(Mismatch {
                            oracle: "gc.found",
                            props: &["C08", "C07", "C01", "C14"],
                            msg: unexpected("existing child not returned", format!("GcFound({})", sid(&v.id))),
                        }),
                    }
                } else {
                    let accept = cl.versions.is_empty() || cl.latest() == *parent;
                    let exp = if accept { Resp::GcNotFound } else { Resp::GcGone };
                    if *resp != exp {
                        let props: &'static [&'static str] = if matches!(resp, Resp::GcFound { .. }) {
                            &["C08", "C09", "C14"]
                        } else {
                            &["C08", "C14"]
                        };
                        mm.push(Mismatch {
                            oracle: "gc.absent",
                            props,
                            msg: unexpected("no child exists", exp.short()),
                        });
                    }
                }
            }
            Req::AddSnapshot { c, v, data } => {
                self.quoted.insert(*v);
                if self.client(c).is_none() {
                    if *resp != Resp::NoSuchClient {
                        mm.push(Mismatch {
                            oracle: "as.unknown_client",
                            props: &["C14", "C10"],
                            msg: unexpected("never-seen client", "NoSuchClient/404".into()),
                        });
                    }
                    return mm;
                }
                if *resp != Resp::AsOk {
                    mm.push(Mismatch {
                        oracle: "as.response",
                        props: &["C10", "C14"],
                        msg: unexpected("AddSnapshot must report success either way", "AsOk".into()),
                    });
                    return mm;
                }
                match self.snapshot_decision(c, v) {
                    SnapDecision::Accept(pos) => {
                        let clm = self.clients.get_mut(c).unwrap();
                        clm.snap = Some(MSnap {
                            version: *v,
                            data: data.clone(),
                            ts_lo: t_lo,
                            ts_hi: t_hi,
                            since: 0,
                            pos,
                        });
                    }
                    SnapDecision::Decline => {}
                    SnapDecision::Either(pos) => {
                        self.pending_corner = Some((*c, *v, data.clone(), pos, t_lo, t_hi));
                    }
                }
            }
            Req::GetSnapshot { c } => {
                let cl = match self.client(c) {
                    Some(cl) => cl,
                    None => {
                        let ok = if http { *resp == Resp::GsNone } else { *resp == Resp::NoSuchClient };
                        if !ok {
                            mm.push(Mismatch {
                                oracle: "gs.unknown_client",
                                props: &["C11", "C14", "C09"],
                                msg: unexpected("never-seen client", "not-found".into()),
                            });
                        }
                        return mm;
                    }
                };
                match (&cl.snap, resp) {
                    (None, Resp::GsNone) => {}
                    (Some(s), Resp::GsFound { id, data }) => {
                        if *id != s.version {
                            mm.push(Mismatch {
                                oracle: "gs.id",
                                props: &["C11", "C10", "C14"],
                                msg: unexpected("snapshot version is not the last accepted one", format!("GsFound({})", sid(&s.version))),
                            });
                        } else if **data != *s.data {
                            mm.push(Mismatch {
                                oracle: "gs.bytes",
                                props: &["C11", "C06", "C14"],
                                msg: unexpected(
                                    "snapshot bytes are not those uploaded with this id",
                                    format!("{}B fnv={:x} (got fnv={:x})", s.data.len(), crate::rng::fnv(&s.data), crate::rng::fnv(data)),
                                ),
                            });
                        }
                    }
                    (None, _) => mm.push(Mismatch {
                        oracle: "gs.none",
                        props: &["C11", "C10", "C14", "C09"],
                        msg: unexpected("no snapshot was ever accepted", "GsNone".into()),
                    }),
                    (Some(s), _) => mm.push(Mismatch {
                        oracle: "gs.found",
                        props: &["C11", "C14"],
                        msg: unexpected("accepted snapshot not returned", format!("GsFound({})", sid(&s.version))),
                    }),
                }
            }
        }
        mm
    }

    /// Resolve a pending open-corner AddSnapshot by what the implementation did.
    pub fn resolve_corner(&mut self, accepted: bool) {
        if let Some((c, v, data, pos, t_lo, t_hi)) = self.pending_corner.take() {
            if accepted {
                if let Some(cl) = self.clients.get_mut(&c) {
                    cl.snap = Some(MSnap {
                        version: v,
                        data,
                        ts_lo: t_lo,
                        ts_hi: t_hi,
                        since: 0,
                        pos,
                    });
                }
            }
        }
    }

    /// All ids this model knows about (issued, quoted, bases).
    pub fn known_ids(&self) -> BTreeSet<Id> {
        let mut s: BTreeSet<Id> = self.issued.union(&self.quoted).cloned().collect();
        s.insert(Uuid::nil());
        for cl in self.clients.values() {
            if let Some(b) = cl.base {
                s.insert(b);
            }
            if let Some(sn) = &cl.snap {
                s.insert(sn.version);
            }
        }
        s
    }
}
