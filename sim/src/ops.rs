//! Symbolic operations: arguments name *roles* ("the latest", "ancestor #2", "another client's
//! version") and are resolved against the model at execution time, so a history stays meaningful
//! when steps are deleted during shrinking.

use crate::http::Chunking;
use crate::model::{Data, Id, Model, Req};
use crate::rng::Rng;
use crate::world::make_id;
use serde::{Deserialize, Serialize};
use std::sync::Arc;
use uuid::Uuid;

#[derive(Clone, Debug, Serialize, Deserialize, PartialEq)]
pub enum IdArg {
    Nil,
    Latest,
    /// k-th ancestor of the latest (Back(0) = parent of latest ... ), i.e. versions[len-2-k]
    Back(u8),
    /// the id the chain started from (parent of the first accepted version)
    Base,
    /// a random id never issued by the server
    Fresh(u16),
    /// version of another client: client index offset (>=1), k-th from the latest
    Foreign { dc: u8, back: u8 },
    /// the current snapshot version
    Snap,
    /// another client's snapshot version
    ForeignSnap { dc: u8 },
}

impl IdArg {
    pub fn class(&self) -> &'static str {
        match self {
            IdArg::Nil => "nil",
            IdArg::Latest => "latest",
            IdArg::Back(_) => "ancestor",
            IdArg::Base => "base",
            IdArg::Fresh(_) => "fresh",
            IdArg::Foreign { .. } => "foreign",
            IdArg::Snap => "snap",
            IdArg::ForeignSnap { .. } => "foreignsnap",
        }
    }
}

#[derive(Clone, Debug, Serialize, Deserialize, PartialEq)]
pub struct Pay {
    /// byte class
    pub class: u8,
    pub len: u32,
    /// uniqueness tag
    pub tag: u32,
}

#[derive(Clone, Debug, Serialize, Deserialize, PartialEq)]
pub enum Op {
    Create { c: u8 },
    AddVersion { c: u8, parent: IdArg, pay: Pay, ch: Chunking },
    GetChild { c: u8, parent: IdArg },
    AddSnapshot { c: u8, v: IdArg, pay: Pay, ch: Chunking },
    GetSnapshot { c: u8 },
    /// move the simulated clock (µs, may be negative)
    Advance { us: i64 },
    /// clean restart: new storage object on the same directory, new server
    Restart,
    /// set the snapshot bookkeeping through the storage seam: versions-since and/or age in µs
    SeedSnap { c: u8, since: Option<u32>, age_us: Option<i64> },
    /// restart the server(s) with other snapshot targets
    Reconfig { days: i64, versions: u32 },
    /// SQLite: a foreign writer holds the database's write lock for this long (simulated µs),
    /// starting now; it affects the next request
    ForeignLock { hold_us: i64 },
    /// SQLite: a foreign reader keeps a read transaction open for this long (simulated µs): blocks
    /// nobody, but no checkpoint completes and the write-ahead log grows meanwhile
    ForeignRead { hold_us: i64 },
    /// the client retries its last upload verbatim (same ids, byte-identical body), as after a lost response
    Resend,
    /// Library only, model-free: a client created directly through the storage trait with a
    /// NON-NIL latest version id and no versions (a state no request produces, but one the storage
    /// API allows and the core's own tests use); then GetChildVersion and AddVersion are compared
    /// with each other for every class of parent, as C08 states the equivalence
    PresetProbe { k: u8 },
    /// a long history: this many further versions, each on the latest (scale: bounded walks, caches
    /// and per-client limits only show beyond some length)
    Bulk { c: u8, n: u16 },
}

impl Op {
    pub fn short(&self) -> String {
        match self {
            Op::Create { c } => format!("create c{c}"),
            Op::AddVersion { c, parent, pay, ch } => {
                format!("av c{c} {:?} {}B/k{} {:?}", parent, pay.len, pay.class, ch)
            }
            Op::GetChild { c, parent } => format!("gc c{c} {:?}", parent),
            Op::AddSnapshot { c, v, pay, .. } => format!("as c{c} {:?} {}B", v, pay.len),
            Op::GetSnapshot { c } => format!("gs c{c}"),
            Op::Advance { us } => format!("advance {us}us"),
            Op::Restart => "restart".into(),
            Op::SeedSnap { c, since, age_us } => format!("seed c{c} since={since:?} age_us={age_us:?}"),
            Op::Reconfig { days, versions } => format!("restart with targets days={days} versions={versions}"),
            Op::ForeignLock { hold_us } => format!("foreign writer holds the lock for {hold_us}us"),
            Op::ForeignRead { hold_us } => format!("foreign reader keeps a read transaction open for {hold_us}us"),
            Op::Resend => "resend the last upload verbatim".into(),
            Op::Bulk { c, n } => format!("{n} more versions for c{c}, each on the latest"),
            Op::PresetProbe { k } => format!("storage-created client #{k} with a non-nil latest id: get-child vs add-version"),
        }
    }
}

pub const N_CLASSES: u8 = 7;

/// Deterministic payload bytes. Every payload with len >= 8 embeds its tag so that payloads in
/// a run are unique and every returned payload is attributable to one upload.
fn stored_blocks(d: &[u8], out: &mut Vec<u8>) {
    if d.is_empty() {
        out.extend([1u8, 0, 0, 0xff, 0xff]);
        return;
    }
    let n = d.chunks(65535).count();
    for (i, c) in d.chunks(65535).enumerate() {
        out.push(if i + 1 == n { 1 } else { 0 });
        let l = c.len() as u16;
        out.extend(l.to_le_bytes());
        out.extend((!l).to_le_bytes());
        out.extend(c);
    }
}

/// A valid gzip stream (stored blocks only) whose content is `d`.
pub fn gzip_stored(d: &[u8]) -> Vec<u8> {
    let mut out = vec![0x1f, 0x8b, 8, 0, 0, 0, 0, 0, 0, 0xff];
    stored_blocks(d, &mut out);
    let mut crc = 0xffff_ffffu32;
    for b in d {
        crc ^= *b as u32;
        for _ in 0..8 {
            crc = if crc & 1 != 0 { (crc >> 1) ^ 0xedb8_8320 } else { crc >> 1 };
        }
    }
    out.extend((!crc).to_le_bytes());
    out.extend((d.len() as u32).to_le_bytes());
    out
}

/// A valid zlib stream (what `Content-Encoding: deflate` means) whose content is `d`.
pub fn zlib_stored(d: &[u8]) -> Vec<u8> {
    let mut out = vec![0x78, 0x01];
    stored_blocks(d, &mut out);
    let (mut a, mut b) = (1u32, 0u32);
    for x in d {
        a = (a + *x as u32) % 65521;
        b = (b + a) % 65521;
    }
    out.extend(((b << 16) | a).to_be_bytes());
    out
}


/// Payload classes outside the `class % N_CLASSES` table: the payload is itself a complete, valid
/// compressed stream (real payloads are compressed and encrypted by the client; a storage layer
/// that sniffs content must not mistake them for its own encoding).
pub const CLASS_ZLIB: u8 = 100;
pub const CLASS_GZIP: u8 = 101;

pub fn payload(seed: u64, p: &Pay) -> Data {
    if p.class >= CLASS_ZLIB && p.len >= 32 {
        let fixed = if p.class == CLASS_ZLIB { 6usize } else { 18 };
        let len = p.len as usize;
        let blocks = (len - fixed).div_ceil(65540).max(1);
        let inner_len = len - fixed - 5 * blocks;
        let inner = payload(seed, &Pay { class: 2, len: inner_len as u32, tag: p.tag });
        let v = if p.class == CLASS_ZLIB { zlib_stored(&inner) } else { gzip_stored(&inner) };
        return Arc::new(v);
    }
    let len = p.len as usize;
    let mut v = vec![0u8; len];
    match p.class % N_CLASSES {
        0 => {}                              // zeros
        1 => v.iter_mut().for_each(|b| *b = 0xFF),
        2 => Rng::new(crate::rng::mix(&[seed, p.tag as u64, 2])).fill(&mut v), // random
        3 => {
            // numeric-looking ASCII
            let mut r = Rng::new(crate::rng::mix(&[seed, p.tag as u64, 3]));
            for b in v.iter_mut() {
                *b = b"0123456789.-e+ "[r.below(15) as usize];
            }
        }
        4 => {
            // valid UTF-8, multi-byte
            let src = "añ€😀\u{0}z\"'\\%_\n".as_bytes();
            for (i, b) in v.iter_mut().enumerate() {
                *b = src[i % src.len()];
            }
            // do not leave a truncated sequence at the end: pad with ASCII
            let mut k = len;
            while k > 0 && std::str::from_utf8(&v[..k]).is_err() {
                k -= 1;
            }
            for b in v[k..].iter_mut() {
                *b = b'~';
            }
        }
        5 => {
            // invalid UTF-8
            let src: [u8; 8] = [0xC3, 0x28, 0xA0, 0xA1, 0xE2, 0x28, 0xF0, 0x00];
            for (i, b) in v.iter_mut().enumerate() {
                *b = src[i % 8];
            }
        }
        _ => {
            // text that looks like SQL / a uuid
            let src = b"00000000-0000-0000-0000-000000000000';--NULL x'00' ";
            for (i, b) in v.iter_mut().enumerate() {
                *b = src[i % src.len()];
            }
        }
    }
    if len >= 12 {
        let off = (crate::rng::mix(&[seed, p.tag as u64, 9]) % (len as u64 - 7)) as usize;
        // for the "pure" classes keep the tag at the end so long runs of the class byte survive
        let off = if p.class % N_CLASSES <= 1 { len - 8 } else { off };
        v[off..off + 4].copy_from_slice(&p.tag.to_le_bytes());
        v[off + 4..off + 8].copy_from_slice(&(p.len ^ 0xA5A5_5A5A).to_le_bytes());
    } else if len >= 1 && p.class % N_CLASSES >= 2 {
        v[0] = (p.tag & 0xff) as u8;
    }
    Arc::new(v)
}

pub fn client_id(seed: u64, c: u8) -> Id {
    make_id(crate::rng::mix(&[seed, 0xC11E]), c as u64)
}

pub fn fresh_id(seed: u64, n: u16) -> Id {
    let id = make_id(crate::rng::mix(&[seed, 0xF5E5]), n as u64);
    // ids quoted by clients need not be version-4 UUIDs: every third one is a v1 / v7 / "version 0" id
    if n % 3 == 1 {
        let mut b = *id.as_bytes();
        b[6] = (b[6] & 0x0f) | [0x10u8, 0x70, 0x00][(n as usize / 3) % 3];
        return Uuid::from_bytes(b);
    }
    id
}

/// Resolve a symbolic id for client index `c` (of `n` clients) against the model.
pub fn resolve(seed: u64, model: &Model, n: u8, c: u8, a: &IdArg) -> Id {
    let me = client_id(seed, c);
    let cl = model.clients.get(&me);
    let other = |dc: u8| -> Option<&crate::model::MClient> {
        if n <= 1 {
            return None;
        }
        let oc = (c as u16 + 1 + (dc as u16 % (n as u16 - 1))) % n as u16;
        model.clients.get(&client_id(seed, oc as u8))
    };
    match a {
        IdArg::Nil => Uuid::nil(),
        IdArg::Latest => cl.map(|c| c.latest()).unwrap_or(Uuid::nil()),
        IdArg::Back(k) => match cl {
            Some(cl) if cl.versions.len() >= 2 + *k as usize => cl.versions[cl.versions.len() - 2 - *k as usize].id,
            Some(cl) if !cl.versions.is_empty() => cl.versions[0].id,
            _ => fresh_id(seed, 900 + *k as u16),
        },
        IdArg::Base => match cl.and_then(|c| c.base) {
            Some(b) => b,
            None => fresh_id(seed, 901),
        },
        IdArg::Fresh(k) => fresh_id(seed, *k),
        IdArg::Foreign { dc, back } => match other(*dc) {
            Some(o) if !o.versions.is_empty() => {
                let i = o.versions.len() - 1 - (*back as usize).min(o.versions.len() - 1);
                o.versions[i].id
            }
            _ => fresh_id(seed, 902),
        },
        IdArg::Snap => match cl.and_then(|c| c.snap.as_ref()) {
            Some(s) => s.version,
            None => fresh_id(seed, 903),
        },
        IdArg::ForeignSnap { dc } => match other(*dc).and_then(|o| o.snap.as_ref()) {
            Some(s) => s.version,
            None => fresh_id(seed, 904),
        },
    }
}

/// Payload size classes, biased to page and overflow boundaries of the run's page size.
pub fn gen_len(r: &mut Rng, page: u32, max: u32) -> u32 {
    let page = page.max(512);
    let v = match r.below(12) {
        0 => 1,
        1 => r.range(2, 16) as u32,
        2 | 3 => r.range(17, 200) as u32,
        4 => {
            // around the table-leaf overflow threshold (page - 35) and the page size
            let base = *r.pick(&[page - 35, page, page / 4, page * 2]);
            (base as i64 + r.range(-40, 40)).max(1) as u32
        }
        5 => r.range(200, page as i64 * 3) as u32,
        6 => (page as i64 * r.range(3, 12) + r.range(-3, 3)) as u32,
        7 => r.range(1, 9) as u32 * 1000,
        8 => *r.pick(&[255u32, 256, 257, 65535, 65536, 65537, 4095, 4096, 4097, 262_143, 262_144, 262_145, 1_048_575, 1_048_576, 1_048_577]),
        9 if max > (2 << 20) => *r.pick(&[2u32 << 20, (2 << 20) + 1, (2 << 20) - 1, 3 << 20, 4 << 20]),
        _ => r.range(1, 64) as u32,
    };
    v.clamp(1, max.max(1))
}

pub fn gen_chunking(r: &mut Rng, len: u32) -> Chunking {
    match r.below(8) {
        0 | 1 | 2 => Chunking::Whole,
        3 => Chunking::Fixed(*r.pick(&[1u32, 2, 3, 7, 64, 1000, 4095, 4096, 4097, 65536])),
        4 if len <= 64 => Chunking::Bytes1,
        5 | 4 => {
            let n = r.range(1, 4);
            let mut cuts: Vec<u32> = (0..n).map(|_| r.below(len.max(1) as u64 + 1) as u32).collect();
            cuts.sort();
            Chunking::Cuts(cuts)
        }
        _ => Chunking::Fixed((len / 2).max(1)),
    }
}

pub fn gen_idarg(r: &mut Rng, for_snapshot: bool) -> IdArg {
    let w: [u32; 8] = if for_snapshot {
        [4, 30, 30, 8, 8, 6, 6, 4]
    } else {
        [10, 40, 16, 8, 10, 8, 4, 4]
    };
    match r.weighted(&w) {
        0 => IdArg::Nil,
        1 => IdArg::Latest,
        2 => IdArg::Back(if for_snapshot { r.below(7) as u8 } else { r.below(4) as u8 }),
        3 => IdArg::Base,
        4 => IdArg::Fresh(r.below(6) as u16),
        5 => IdArg::Foreign {
            dc: r.below(3) as u8,
            back: r.below(3) as u8,
        },
        6 => IdArg::Snap,
        _ => IdArg::ForeignSnap { dc: r.below(3) as u8 },
    }
}

/// Resolve a symbolic op into a concrete request (None for non-request ops).
pub fn concretise(seed: u64, model: &Model, n: u8, op: &Op) -> Option<Req> {
    Some(match op {
        Op::Create { c } => Req::CreateClient { c: client_id(seed, *c) },
        Op::AddVersion { c, parent, pay, .. } => Req::AddVersion {
            c: client_id(seed, *c),
            parent: resolve(seed, model, n, *c, parent),
            data: payload(seed, pay),
        },
        Op::GetChild { c, parent } => Req::GetChild {
            c: client_id(seed, *c),
            parent: resolve(seed, model, n, *c, parent),
        },
        Op::AddSnapshot { c, v, pay, .. } => Req::AddSnapshot {
            c: client_id(seed, *c),
            v: resolve(seed, model, n, *c, v),
            data: payload(seed, pay),
        },
        Op::GetSnapshot { c } => Req::GetSnapshot { c: client_id(seed, *c) },
        _ => return None,
    })
}
