//! Scheduler: simulated actors are real OS threads, but exactly one runs at a time. A thread
//! hands the token back at *scheduling points*; who runs next is decided by the schedule
//! stream (or a recorded trace when replaying). Time is discrete-event: sleeping threads are not
//! runnable, and when nothing is runnable the simulated clock jumps to the earliest wake-up.

use crate::rng::Rng;
use serde::{Deserialize, Serialize};
use std::cell::Cell;
use std::sync::atomic::{AtomicI64, Ordering};
use std::sync::{Condvar, Mutex};

/// Simulated clock, µs since EPOCH_S. The only clock the system under test reads.
pub static CLOCK_US: AtomicI64 = AtomicI64::new(0);
/// 2026-01-01T00:00:00Z
pub const EPOCH_S: i64 = 1_767_225_600;

/// Global event sequence number as of the last scheduling point / stamp (readable without the scheduler lock).
/// Label of the run in progress (job + seed), for harness diagnostics.
pub static CURRENT_RUN: Mutex<String> = Mutex::new(String::new());

pub static SEQ_NOW: std::sync::atomic::AtomicU64 = std::sync::atomic::AtomicU64::new(0);

pub fn seq_now() -> u64 {
    SEQ_NOW.load(Ordering::SeqCst)
}

pub fn now_us() -> i64 {
    CLOCK_US.load(Ordering::SeqCst)
}
pub fn set_now_us(v: i64) {
    CLOCK_US.store(v, Ordering::SeqCst)
}
pub fn advance_us(d: i64) {
    CLOCK_US.fetch_add(d, Ordering::SeqCst);
}

#[derive(Clone, Copy, Debug, PartialEq, Eq, Serialize, Deserialize)]
#[repr(u8)]
pub enum Site {
    Start = 0,
    Txn = 1,
    Call = 2,
    AfterCall = 3,
    DropTxn = 4,
    Chunk = 5,
    Contended = 6,
    BusySleep = 7,
    Respond = 8,
    Stall = 9,
    Finish = 10,
    /// the token holder made no progress for a while: it is blocked on a real OS primitive the
    /// simulator does not know (e.g. a mutex added to the code under test); another thread runs
    OsBlocked = 11,
    /// a VFS call of SQLite (raw-storage mode: scheduling points below the storage trait)
    Vfs = 12,
}

#[derive(Clone, Debug, Serialize, Deserialize, PartialEq)]
pub enum Strategy {
    /// uniform choice among runnable threads at every point
    Random,
    /// keep running the current thread with probability p/100, else switch uniformly
    Sticky(u8),
    /// PCT: random priorities; at `changes` randomly chosen steps the running thread drops to the lowest priority
    Pct { changes: Vec<u32> },
    /// run threads to completion in priority order except for forced switches at the given steps
    Preempt { at: Vec<u32> },
}

#[derive(Clone, Copy, PartialEq, Debug)]
pub enum ThState {
    Runnable,
    Sleeping(i64),
    Done,
    /// blocked (or running) outside the scheduler's control; becomes Runnable at its next point
    OsBlocked,
}

struct St {
    active: bool,
    cur: usize,
    th: Vec<ThState>,
    prio: Vec<u64>,
    rng: Rng,
    /// separate stream for service times, so that replaying explicit decisions (which draws
    /// nothing from `rng`) sees the same clock
    rng_time: Rng,
    strategy: Strategy,
    /// (thread, site) for every scheduling point passed
    trace: Vec<(u8, u8)>,
    /// thread chosen at every decision
    choices: Vec<u8>,
    replay: Option<Vec<u8>>,
    rpos: usize,
    steps: u32,
    seq: u64,
    max_steps: u32,
    service_max_us: i64,
    /// (step, duration µs): the thread at that step stalls while holding whatever it holds
    stalls: Vec<(u32, i64)>,
    stalls_fired: u32,
    contended: u64,
    busy_sleeps: u64,
    busy_slept_us: i64,
    overrun: bool,
    last_progress: std::time::Instant,
    os_blocked: u64,
}

const COORD: usize = usize::MAX;

static SCHED: Mutex<Option<St>> = Mutex::new(None);
static CV: Condvar = Condvar::new();

thread_local! {
    static TID: Cell<Option<usize>> = const { Cell::new(None) };
}

pub fn tid() -> Option<usize> {
    TID.with(|t| t.get())
}

#[derive(Clone, Debug, Serialize, Deserialize)]
pub struct SchedPlan {
    pub seed: u64,
    pub strategy: Strategy,
    pub service_max_us: i64,
    pub stalls: Vec<(u32, i64)>,
    /// explicit decisions (replay / minimisation); `None` = draw from the stream
    pub replay: Option<Vec<u8>>,
}

#[derive(Clone, Debug, Default)]
pub struct SchedOutcome {
    pub trace: Vec<(u8, u8)>,
    pub choices: Vec<u8>,
    pub steps: u32,
    pub contended: u64,
    pub busy_sleeps: u64,
    pub busy_slept_us: i64,
    pub stalls_fired: u32,
    pub overrun: bool,
    pub hang: bool,
    pub os_blocked: u64,
}

fn choose(st: &mut St, me: Option<usize>) -> Option<usize> {
    // wake sleepers whose time has come
    let now = now_us();
    for t in st.th.iter_mut() {
        if let ThState::Sleeping(w) = *t {
            if w <= now {
                *t = ThState::Runnable;
            }
        }
    }
    let mut runnable: Vec<usize> = (0..st.th.len())
        .filter(|i| st.th[*i] == ThState::Runnable)
        .collect();
    if runnable.is_empty() {
        // jump the clock to the earliest wake-up
        let mut best: Option<(i64, usize)> = None;
        for (i, t) in st.th.iter().enumerate() {
            if let ThState::Sleeping(w) = *t {
                if best.map(|b| w < b.0).unwrap_or(true) {
                    best = Some((w, i));
                }
            }
        }
        let (w, _) = best?;
        set_now_us(w);
        for t in st.th.iter_mut() {
            if let ThState::Sleeping(x) = *t {
                if x <= w {
                    *t = ThState::Runnable;
                }
            }
        }
        runnable = (0..st.th.len())
            .filter(|i| st.th[*i] == ThState::Runnable)
            .collect();
    }
    let me_runnable = me.map(|m| runnable.contains(&m)).unwrap_or(false);
    let pick: usize;
    if let Some(rp) = &st.replay {
        let want = rp.get(st.rpos).copied();
        st.rpos += 1;
        pick = match want {
            Some(w) if runnable.contains(&(w as usize)) => w as usize,
            _ => {
                if me_runnable {
                    me.unwrap()
                } else {
                    runnable[0]
                }
            }
        };
    } else {
        pick = match &st.strategy {
            Strategy::Random => runnable[st.rng.below(runnable.len() as u64) as usize],
            Strategy::Sticky(p) => {
                if me_runnable && st.rng.below(100) < *p as u64 {
                    me.unwrap()
                } else {
                    runnable[st.rng.below(runnable.len() as u64) as usize]
                }
            }
            Strategy::Pct { changes } => {
                if let Some(m) = me {
                    if changes.contains(&st.steps) {
                        let low = st.prio.iter().copied().min().unwrap_or(1);
                        st.prio[m] = low.saturating_sub(1);
                    }
                }
                *runnable.iter().max_by_key(|i| st.prio[**i]).unwrap()
            }
            Strategy::Preempt { at } => {
                if me_runnable && !at.contains(&st.steps) {
                    me.unwrap()
                } else {
                    let others: Vec<usize> = runnable
                        .iter()
                        .copied()
                        .filter(|i| Some(*i) != me)
                        .collect();
                    if others.is_empty() {
                        runnable[0]
                    } else {
                        others[st.rng.below(others.len() as u64) as usize]
                    }
                }
            }
        };
    }
    st.choices.push(pick as u8);
    Some(pick)
}

/// Wait until this thread holds the token. A thread that was handed the token but was slow to wake
/// up may have been taken for OS-blocked meanwhile (the token moved on): it makes itself runnable
/// again so that the scheduler can pick it later.
fn wait_for_token<'a>(mut g: std::sync::MutexGuard<'a, Option<St>>, me: usize) -> std::sync::MutexGuard<'a, Option<St>> {
    loop {
        match g.as_mut() {
            Some(st) => {
                if st.th[me] == ThState::OsBlocked {
                    st.th[me] = ThState::Runnable;
                    CV.notify_all();
                }
                if st.cur == me {
                    return g;
                }
            }
            None => return g,
        }
        g = CV.wait_timeout(g, std::time::Duration::from_millis(100)).unwrap().0;
    }
}

fn hand_over<'a>(
    mut g: std::sync::MutexGuard<'a, Option<St>>,
    me: usize,
    next: usize,
) -> std::sync::MutexGuard<'a, Option<St>> {
    if next == me {
        return g;
    }
    {
        let st = g.as_mut().unwrap();
        st.cur = next;
        st.last_progress = std::time::Instant::now();
    }
    CV.notify_all();
    g = CV.wait_timeout(g, std::time::Duration::from_millis(100)).unwrap().0;
    wait_for_token(g, me)
}

/// A thread that was declared OS-blocked (and has been running without the token since the
/// primitive it waited on was released) stops here and waits for the token again.
fn reenter<'a>(mut g: std::sync::MutexGuard<'a, Option<St>>, me: usize) -> std::sync::MutexGuard<'a, Option<St>> {
    let was_blocked = matches!(g.as_ref(), Some(st) if st.active && st.th[me] == ThState::OsBlocked);
    if !was_blocked {
        return g;
    }
    g.as_mut().unwrap().th[me] = ThState::Runnable;
    CV.notify_all();
    wait_for_token(g, me)
}

/// A scheduling point. No-op outside a scheduled run.
pub fn point(site: Site) {
    let me = match tid() {
        Some(t) => t,
        None => return,
    };
    let mut g = SCHED.lock().unwrap();
    g = reenter(g, me);
    let st = match g.as_mut() {
        Some(st) if st.active => st,
        _ => return,
    };
    st.last_progress = std::time::Instant::now();
    st.steps += 1;
    st.seq += 1;
    SEQ_NOW.store(st.seq, Ordering::SeqCst);
    st.trace.push((me as u8, site as u8));
    if st.steps > st.max_steps {
        st.overrun = true;
    }
    // service time of the step just executed
    if st.service_max_us > 0 && matches!(site, Site::AfterCall | Site::Txn | Site::Chunk) {
        let d = st.rng_time.below(st.service_max_us as u64 + 1) as i64;
        advance_us(d);
    }
    // stall fault: this thread stops for a long simulated time, holding what it holds
    let step = st.steps;
    if let Some(pos) = st.stalls.iter().position(|(s, _)| *s == step) {
        let (_, d) = st.stalls[pos];
        st.stalls_fired += 1;
        st.th[me] = ThState::Sleeping(now_us() + d);
    }
    let next = choose(st, Some(me)).expect("a thread at a point is runnable or sleeping");
    let _g = hand_over(g, me, next);
}

/// Sleep for `d` simulated µs (lock waits). Outside a scheduled run: just advances the clock.
pub fn sleep_us(d: i64, site: Site) {
    let me = match tid() {
        Some(t) => t,
        None => {
            advance_us(d);
            return;
        }
    };
    let mut g = SCHED.lock().unwrap();
    g = reenter(g, me);
    let st = match g.as_mut() {
        Some(st) if st.active => st,
        _ => {
            advance_us(d);
            return;
        }
    };
    st.last_progress = std::time::Instant::now();
    st.steps += 1;
    st.seq += 1;
    st.trace.push((me as u8, site as u8));
    if st.steps > st.max_steps {
        st.overrun = true;
    }
    match site {
        Site::Contended => st.contended += 1,
        Site::BusySleep => {
            st.busy_sleeps += 1;
            st.busy_slept_us += d;
        }
        _ => {}
    }
    st.th[me] = ThState::Sleeping(now_us() + d.max(1));
    let next = choose(st, Some(me)).expect("sleeper exists");
    let _g = hand_over(g, me, next);
}

/// Global event sequence number (for invocation/response stamps).
pub fn stamp() -> u64 {
    let mut g = SCHED.lock().unwrap();
    match g.as_mut() {
        Some(st) => {
            st.seq += 1;
            SEQ_NOW.store(st.seq, Ordering::SeqCst);
            st.seq
        }
        None => 0,
    }
}

pub fn overrun() -> bool {
    SCHED
        .lock()
        .unwrap()
        .as_ref()
        .map(|s| s.overrun)
        .unwrap_or(false)
}

/// Run `n` simulated threads under the scheduler. `body(tid)` runs on thread `tid`.
/// Returns the schedule outcome. Panics inside bodies are caught by the bodies themselves.
pub fn run_threads<F>(n: usize, plan: &SchedPlan, max_steps: u32, body: F) -> SchedOutcome
where
    F: Fn(usize) + Send + Sync,
{
    let mut rng = Rng::stream(plan.seed, "schedule");
    let prio: Vec<u64> = (0..n).map(|_| rng.next() | 0xffff).collect();
    {
        let mut g = SCHED.lock().unwrap();
        *g = Some(St {
            active: true,
            cur: COORD,
            th: vec![ThState::Runnable; n],
            prio,
            rng,
            rng_time: Rng::stream(plan.seed, "service-time"),
            strategy: plan.strategy.clone(),
            trace: Vec::new(),
            choices: Vec::new(),
            replay: plan.replay.clone(),
            rpos: 0,
            steps: 0,
            seq: 0,
            max_steps,
            service_max_us: plan.service_max_us,
            stalls: plan.stalls.clone(),
            stalls_fired: 0,
            contended: 0,
            busy_sleeps: 0,
            busy_slept_us: 0,
            overrun: false,
            last_progress: std::time::Instant::now(),
            os_blocked: 0,
        });
    }
    let mut hang = false;
    std::thread::scope(|scope| {
        let body = &body;
        let mut handles = Vec::new();
        for i in 0..n {
            handles.push(
                std::thread::Builder::new()
                    .name(format!("sim-{i}"))
                    .stack_size(4 << 20)
                    .spawn_scoped(scope, move || {
                        TID.with(|t| t.set(Some(i)));
                        {
                            // wait for the token. (If the machine is so loaded that this thread was
                            // given the token, did not get the CPU for a while and was therefore taken
                            // for OS-blocked, it makes itself runnable again here.)
                            let g = SCHED.lock().unwrap();
                            let _g = wait_for_token(g, i);
                        }
                        let r = std::panic::catch_unwind(std::panic::AssertUnwindSafe(|| body(i)));
                        // finish: hand the token to someone else
                        let mut g = SCHED.lock().unwrap();
                        if let Some(st) = g.as_mut() {
                            let held = st.cur == i;
                            st.th[i] = ThState::Done;
                            st.trace.push((i as u8, Site::Finish as u8));
                            st.last_progress = std::time::Instant::now();
                            if held {
                                match choose(st, None) {
                                    Some(next) => st.cur = next,
                                    None => st.cur = COORD,
                                }
                            }
                        }
                        CV.notify_all();
                        drop(g);
                        TID.with(|t| t.set(None));
                        if let Err(e) = r {
                            std::panic::resume_unwind(e);
                        }
                    })
                    .expect("spawn"),
            );
        }
        // start: choose the first thread
        {
            let mut g = SCHED.lock().unwrap();
            let st = g.as_mut().unwrap();
            let first = choose(st, None).unwrap_or(COORD);
            st.cur = first;
            CV.notify_all();
            // (development knob: VERIF_BLOCK_MS lowers the threshold to exercise this path deliberately)
            let block_ms: u64 = std::env::var("VERIF_BLOCK_MS").ok().and_then(|v| v.parse().ok()).unwrap_or(1500);
            // wait until every thread is done (token returns to COORD), with a real-time watchdog
            let deadline = std::time::Instant::now() + std::time::Duration::from_secs(600);
            loop {
                {
                    let st = g.as_mut().unwrap();
                    if st.th.iter().all(|t| *t == ThState::Done) {
                        break;
                    }
                    let idle = st.last_progress.elapsed();
                    if st.cur != COORD && st.th[st.cur] != ThState::Done && idle > std::time::Duration::from_millis(block_ms) {
                        // the token holder is stuck outside the scheduler: let someone else run
                        let t = st.cur;
                        st.th[t] = ThState::OsBlocked;
                        st.os_blocked += 1;
                        st.trace.push((t as u8, Site::OsBlocked as u8));
                        st.cur = choose(st, None).unwrap_or(COORD);
                        st.last_progress = std::time::Instant::now();
                        CV.notify_all();
                    } else if st.cur == COORD || st.th[st.cur] == ThState::Done {
                        // nobody holds the token: give it to whoever is (or has become) runnable
                        if let Some(next) = choose(st, None) {
                            st.cur = next;
                            st.last_progress = std::time::Instant::now();
                            CV.notify_all();
                        }
                    }
                }
                if g.as_ref().unwrap().last_progress.elapsed() > std::time::Duration::from_secs(60) || std::time::Instant::now() >= deadline {
                    hang = true;
                    break;
                }
                let (ng, _) = CV.wait_timeout(g, std::time::Duration::from_millis(block_ms.min(50).max(1))).unwrap();
                g = ng;
            }
        }
        if hang {
            // cannot recover a wedged OS thread; report and abort the process from the caller
            let run = CURRENT_RUN.lock().map(|s| s.clone()).unwrap_or_default();
            let diag = match SCHED.try_lock() {
                Ok(g) => g.as_ref().map(|st| format!("cur={} states={:?} steps={} os_blocked={} last_progress={:?} ago trace_tail={:?}", st.cur as i64, st.th, st.steps, st.os_blocked, st.last_progress.elapsed(), st.trace.iter().rev().take(12).collect::<Vec<_>>())).unwrap_or_default(),
                Err(_) => "scheduler state locked".to_string(),
            };
            eprintln!("HARNESS: scheduler watchdog fired (a simulated thread is blocked outside the scheduler) run=[{run}] {diag}");
            std::process::exit(2);
        }
        for h in handles {
            let _ = h.join();
        }
    });
    let st = SCHED.lock().unwrap().take().unwrap();
    SchedOutcome {
        trace: st.trace,
        choices: st.choices,
        steps: st.steps,
        contended: st.contended,
        busy_sleeps: st.busy_sleeps,
        busy_slept_us: st.busy_slept_us,
        stalls_fired: st.stalls_fired,
        overrun: st.overrun,
        hang,
        os_blocked: st.os_blocked,
    }
}
