//! S3 `conc`: a sequential prefix, then a batch of 2-4 requests issued by 2-3 simulated threads
//! (optionally on 2-3 server instances sharing one data directory) under the seeded scheduler,
//! then sequential observation. The batch must be linearizable: some one-at-a-time ordering
//! consistent with real-time order reproduces every response and the final state.

use crate::http::{call_http, Chunking, HttpApp};
use crate::model::{sid, Cfg, Model, Req, Resp};
use crate::ops::{self, IdArg, Op, Pay};
use crate::report::{viol, RunOut};
use crate::rng::{Digest, Rng};
use crate::sched::{self, SchedPlan, Strategy};
use crate::seq::{self, Focus, GenParams, World};
use crate::world::{Backend, Entry, Instance};
use serde::{Deserialize, Serialize};
use std::sync::{Arc, Mutex};
use taskchampion_sync_server_core::Storage;
use taskchampion_sync_server_storage_sqlite::SqliteStorage;

#[derive(Clone, Debug, Serialize, Deserialize)]
pub struct BOp {
    pub op: Op,
    pub inst: u8,
    /// a client that syncs: the id argument (parent / snapshot version) is the id the PREVIOUS
    /// response of this thread named (accepted or found version, or the parent a conflict named),
    /// known only when that response has arrived
    #[serde(default)]
    pub follow: bool,
}

#[derive(Clone, Debug, Serialize, Deserialize)]
pub struct ConcPlan {
    pub seed: u64,
    pub backend: Backend,
    pub entry: Entry,
    pub instances: u8,
    pub page_size: Option<u32>,
    pub n_clients: u8,
    pub cfg: Cfg,
    pub start_us: i64,
    pub prefix: Vec<Op>,
    /// per simulated thread, the requests it issues one after the other
    pub batch: Vec<Vec<BOp>>,
    pub sched: SchedPlan,
    pub skews_us: Vec<i64>,
    /// HTTP only: all requests of the batch are handled by ONE worker as concurrent tasks that
    /// interleave at the handler's await points (slow upload chunks), as on a real actix worker
    #[serde(default)]
    pub same_worker: bool,
    /// SQLite: capture crash images at every mutating VFS call of the batch (several requests in flight)
    #[serde(default)]
    pub crash_images: u8,
    /// SQLite: the servers own the concrete storage (no wrapper); scheduling points at VFS calls
    #[serde(default)]
    pub raw_storage: bool,
    /// SQLite: the requests of the LAST simulated thread are served by a server in ANOTHER PROCESS
    /// on the same directory (see xproc.rs): process-wide state of the code under test is not shared
    #[serde(default)]
    pub xproc: bool,
}

pub fn gen_plan(seed: u64, backend: Backend, entry: Entry, thorough: bool) -> ConcPlan {
    let mut r = Rng::stream(seed, "plan");
    let n_clients = 1 + r.weighted(&[65, 35]) as u8;
    let focus = *r.pick(&[Focus::General, Focus::Snapshots]);
    let mut cfg = seq::gen_cfg(&mut r, focus);
    if cfg.days > 100_000 {
        cfg.days = 14;
    }
    let instances = if backend == Backend::Sqlite { 1 + r.weighted(&[50, 35, 15]) as u8 } else { 1 };
    let page_size = if backend == Backend::Sqlite && r.chance(20, 100) { Some(*r.pick(&[512u32, 1024, 8192])) } else { None };
    let p = GenParams {
        backend,
        entry,
        focus,
        max_ops: 9,
        max_payload: 3000,
        whole_sec: false,
        allow_restart: false,
        allow_seed: false,
        foreign_lock_pct: 0,
        allow_empty_payload: false,
    };
    // the prefix: 0..8 sequential operations; half of the time empty-ish so that the very first
    // requests for a new client are in the batch
    let prefix = if r.chance(35, 100) {
        vec![]
    } else {
        let mut v = seq::gen_ops(&mut r, &p, n_clients, &cfg, page_size.unwrap_or(4096));
        v.retain(|o| !matches!(o, Op::Advance { .. }));
        v
    };
    let n_threads = 2 + r.weighted(&[70, 30]) as usize;
    let mut batch: Vec<Vec<BOp>> = Vec::new();
    let mut tag = 500_000u32;
    let mut total = 0;
    // most batches target one client
    let hot = r.below(n_clients as u64) as u8;
    for _ in 0..n_threads {
        let k = if total >= 3 { 1 } else { 1 + r.weighted(&[75, 25]) as usize };
        let mut v = Vec::new();
        for _ in 0..k {
            if total >= 4 {
                break;
            }
            total += 1;
            tag += 1;
            let c = if r.chance(85, 100) { hot } else { r.below(n_clients as u64) as u8 };
            let maxlen = if r.chance(10, 100) { 9000 } else { 40 };
            let pay = Pay { class: r.below(ops::N_CLASSES as u64) as u8, len: r.range(1, maxlen) as u32, tag };
            let ch = if entry == Entry::Http { ops::gen_chunking(&mut r, pay.len) } else { Chunking::Whole };
            let op = match r.weighted(&[45, 18, 22, 15]) {
                0 => Op::AddVersion {
                    c,
                    parent: if r.chance(75, 100) { IdArg::Latest } else { ops::gen_idarg(&mut r, false) },
                    pay,
                    ch,
                },
                1 => Op::GetChild { c, parent: if r.chance(50, 100) { IdArg::Latest } else { ops::gen_idarg(&mut r, false) } },
                2 => Op::AddSnapshot { c, v: if r.chance(50, 100) { IdArg::Latest } else { ops::gen_idarg(&mut r, true) }, pay, ch },
                _ => Op::GetSnapshot { c },
            };
            let follow = !v.is_empty() && !matches!(op, Op::GetSnapshot { .. }) && r.chance(45, 100);
            v.push(BOp { op, inst: r.below(instances as u64) as u8, follow });
        }
        if !v.is_empty() {
            batch.push(v);
        }
    }
    let est_steps = 60u32;
    let strategy = match r.weighted(&[35, 25, 20, 20]) {
        0 => Strategy::Random,
        1 => Strategy::Sticky(*r.pick(&[50u8, 70, 85, 95])),
        2 => Strategy::Pct { changes: (0..r.range(1, 3)).map(|_| r.below(est_steps as u64) as u32).collect() },
        _ => Strategy::Preempt { at: (0..r.range(1, 3)).map(|_| r.below(est_steps as u64) as u32).collect() },
    };
    // stall fault: a thread stops for 1-20 simulated seconds while holding what it holds
    let stalls = if thorough && r.chance(6, 100) || !thorough && r.chance(4, 100) {
        vec![(r.below(est_steps as u64) as u32, r.range(1_000_000, 20_000_000))]
    } else {
        vec![]
    };
    ConcPlan {
        seed,
        backend,
        entry,
        instances,
        page_size,
        n_clients,
        cfg,
        start_us: r.range(0, 86_400_000) * 1000,
        prefix,
        batch,
        sched: SchedPlan {
            seed: crate::rng::mix(&[seed, 0x5C4ED]),
            strategy,
            service_max_us: *r.pick(&[0i64, 100, 5000]),
            stalls,
            replay: None,
        },
        skews_us: (0..3).map(|_| if r.chance(30, 100) { r.range(-5_000_000, 5_000_000) } else { 0 }).collect(),
        same_worker: entry == Entry::Http && r.chance(22, 100),
        raw_storage: backend == Backend::Sqlite && r.chance(35, 100),
        crash_images: if backend == Backend::Sqlite && r.chance(if thorough { 30 } else { 15 }, 100) { 1 + r.below(2) as u8 } else { 0 },
        xproc: backend == Backend::Sqlite && r.chance(14, 100),
    }
}

/// Two threads on one SQLite directory: one in this process, one served by another process. With a
/// single in-process thread nothing ever waits on process-wide state of the code under test, so
/// these runs stay fast whatever that code does.
pub fn gen_plan_xproc(seed: u64, entry: Entry, thorough: bool) -> ConcPlan {
    let mut p = gen_plan(seed, Backend::Sqlite, entry, thorough);
    p.xproc = true;
    p.same_worker = false;
    p.crash_images = 0;
    if p.batch.len() > 2 {
        p.batch.truncate(2);
    }
    p
}

#[derive(Clone, Debug)]
struct Done {
    tid: usize,
    req: Req,
    resp: Resp,
    inv: u64,
    ret: u64,
    t_inv: i64,
    t_ret: i64,
}

/// Depth-first search for a linearization: ops whose every real-time predecessor is placed may
/// go next. `on_match` is called with the model after a complete order that reproduces all
/// responses; it decides whether the final state matches too.
fn search(done: &[Done], witness: &[Done], placed: &mut Vec<usize>, path: &mut Vec<Model>, model: &Model, http: bool, relax: bool, on_match: &mut dyn FnMut(&Model, &[usize], &[Model]) -> bool, tried: &mut u32) -> bool {
    if placed.len() == done.len() {
        *tried += 1;
        return on_match(model, placed, path);
    }
    for i in 0..done.len() {
        if placed.contains(&i) {
            continue;
        }
        // real-time order: everything that returned before i was invoked must already be placed
        if (0..done.len()).any(|j| j != i && !placed.contains(&j) && done[j].ret < done[i].inv) {
            continue;
        }
        let d = &done[i];
        // known finding F1 (relaxed search only): the HTTP AddVersion handler creates an unknown
        // client in a transaction of its own before adding the version, so an overlapping
        // AddSnapshot can see the half-created, empty client and answer 200 (storing nothing)
        // where every sequential order answers 404
        if relax && http {
            if let Req::AddSnapshot { c, .. } = &d.req {
                if model.client(c).is_none()
                    && d.resp == Resp::AsOk
                    && witness.iter().any(|o| o.tid != d.tid && o.inv < d.ret && matches!(&o.req, Req::AddVersion { c: c2, .. } if c2 == c))
                {
                    placed.push(i);
                    path.push(model.clone());
                    if search(done, witness, placed, path, model, http, relax, on_match, tried) {
                        return true;
                    }
                    path.pop();
                    placed.pop();
                    continue;
                }
            }
        }
        let mut m = model.clone();
        let mm = m.apply(&d.req, &d.resp, d.t_inv, d.t_ret, http);
        if !mm.is_empty() {
            continue;
        }
        // an open-corner AddSnapshot: both outcomes are legal, try both
        let variants: Vec<Model> = if m.pending_corner.is_some() {
            let mut a = m.clone();
            a.resolve_corner(true);
            let mut b = m;
            b.resolve_corner(false);
            vec![a, b]
        } else {
            vec![m]
        };
        for mv in variants {
            placed.push(i);
            path.push(mv.clone());
            if search(done, witness, placed, path, &mv, http, relax, on_match, tried) {
                return true;
            }
            path.pop();
            placed.pop();
        }
    }
    false
}

pub fn exec(plan: &ConcPlan) -> RunOut {
    let mut out = RunOut::default();
    crate::world::begin_run(plan.seed, plan.start_us);
    let http = plan.entry == Entry::Http;
    let mut w = match World::new(plan.seed, plan.backend, plan.entry, plan.page_size, plan.n_clients, plan.cfg, None) {
        Ok(w) => w,
        Err(e) => {
            out.harness_error = Some(format!("world setup failed: {e:#}"));
            return out;
        }
    };
    for op in &plan.prefix {
        w.step(op, &mut out);
        if crate::report::should_stop(&out) {
            break;
        }
    }
    if crate::report::should_stop(&out) {
        out.digest = w.digest.0;
        return out;
    }
    // server instances: instance 0 is the world's; further ones are new storage objects on the same directory
    let mut insts: Vec<Arc<Instance>> = Vec::new();
    let raw_mode = plan.raw_storage && plan.backend == Backend::Sqlite;
    if raw_mode {
        out.bump("cfg.raw_storage_vfs_scheduling_points");
    }
    for i in 0..plan.instances.max(1) {
        if raw_mode {
            match Instance::new_sqlite_raw(w.store.dir.as_ref().unwrap(), plan.cfg, None, plan.skews_us.get(i as usize).copied().unwrap_or(0)) {
                Ok(inst) => insts.push(Arc::new(inst)),
                Err(e) => {
                    out.violations.push(viol(&["C03", "C13"], "conc.second_instance_failed", format!("opening an instance on the directory failed: {e:#}")));
                    return out;
                }
            }
            continue;
        }
        let raw: Arc<dyn Storage> = if i == 0 || plan.backend == Backend::Memory {
            w.store.raw.clone()
        } else {
            match SqliteStorage::new(w.store.dir.as_ref().unwrap()) {
                Ok(s) => Arc::new(s),
                Err(e) => {
                    out.violations.push(viol(&["C03", "C13"], "conc.second_instance_failed", format!("opening a second instance on the directory failed: {e:#}")));
                    return out;
                }
            }
        };
        insts.push(Arc::new(Instance::new(raw, plan.cfg, None, plan.skews_us.get(i as usize).copied().unwrap_or(0))));
    }
    // resolve the batch against the prefix state
    let reqs: Vec<Vec<(Req, Chunking, usize, bool)>> = plan
        .batch
        .iter()
        .map(|t| {
            t.iter()
                .filter_map(|b| {
                    let ch = match &b.op {
                        Op::AddVersion { ch, .. } | Op::AddSnapshot { ch, .. } => ch.clone(),
                        _ => Chunking::Whole,
                    };
                    ops::concretise(plan.seed, &w.model, plan.n_clients, &b.op).map(|r| (r, ch, (b.inst as usize) % insts.len(), b.follow))
                })
                .collect()
        })
        .collect();
    let n_threads = reqs.len();
    if n_threads == 0 {
        return out;
    }
    let done: Mutex<Vec<Done>> = Mutex::new(Vec::new());
    let t_batch = sched::now_us();
    let w_dir: Option<std::path::PathBuf> = w.store.dir.as_ref().map(|d| d.to_path_buf());
    let xproc = plan.xproc && plan.backend == Backend::Sqlite && n_threads >= 2 && w.store.dir.is_some();
    if xproc {
        out.bump("cfg.one_thread_served_by_another_process");
    }
    let xproc_skipped = std::sync::atomic::AtomicU64::new(0);
    let xproc_err: Mutex<Option<String>> = Mutex::new(None);
    let capture = plan.crash_images > 0 && plan.backend == Backend::Sqlite && !xproc;
    if capture {
        if let Some(d) = &w.store.dir {
            crate::vfs::track(d);
            crate::vfs::mark_all_durable();
            crate::vfs::set_capture(true, plan.crash_images as u32, false, 256 << 20);
            crate::vfs::pause_capture(false);
            out.bump("cfg.crash_images_during_overlapping_requests");
        }
    }
    crate::vfs::set_sched_points(raw_mode);
    let same_worker = plan.same_worker && http && !xproc;
    if same_worker {
        out.bump("cfg.same_worker_async_interleaving");
    }
    let so = if same_worker {
        // one worker thread, one task per "client connection"; tasks interleave wherever a body
        // chunk is not ready yet
        sched::run_threads(1, &plan.sched, 20_000, |_| {
            let inst = &insts[0];
            let app = HttpApp::new(&inst.web);
            let appr = &app;
            let doner = &done;
            let mut polls = 0u64;
            crate::http::block_on(async {
                use std::future::Future;
                let mut tasks: Vec<std::pin::Pin<Box<dyn Future<Output = ()> + '_>>> = Vec::new();
                for (tid, list) in reqs.iter().enumerate() {
                    let seed = plan.seed;
                    tasks.push(Box::pin(async move {
                        for (k, (req, ch, _, _)) in list.iter().enumerate() {
                            let mut w = match crate::http::wire_for(req, ch) {
                                Some(w) => w,
                                None => continue,
                            };
                            w.pending_seed = Some(crate::rng::mix(&[seed, tid as u64, k as u64, 0xA51C]));
                            let inv = sched::stamp();
                            let t_inv = sched::now_us() + inst.skew_us;
                            crate::world::SKEW_US.with(|s| s.set(inst.skew_us));
                            let raw = appr.start(w).await;
                            let (resp, _enc) = crate::http::decode(req, &raw);
                            let t_ret = sched::now_us() + inst.skew_us;
                            let ret = sched::stamp();
                            doner.lock().unwrap().push(Done { tid, req: req.clone(), resp, inv, ret, t_inv, t_ret });
                        }
                    }));
                }
                let waker = futures::task::noop_waker();
                let mut cx = std::task::Context::from_waker(&waker);
                let mut rng = Rng::stream(plan.sched.seed, "async-poll");
                while !tasks.is_empty() && polls < 200_000 {
                    polls += 1;
                    let i = rng.below(tasks.len() as u64) as usize;
                    if tasks[i].as_mut().poll(&mut cx).is_ready() {
                        drop(tasks.remove(i));
                    }
                }
            });
        })
    } else {
        sched::run_threads(n_threads, &plan.sched, 20_000, |tid| {
        let mut apps: Vec<Option<HttpApp>> = (0..insts.len()).map(|_| None).collect();
        let mut prev_id: Option<uuid::Uuid> = None;
        for (k, (req0, ch, ii, follow)) in reqs[tid].iter().enumerate() {
            let inst = &insts[*ii];
            let followed: Req;
            let req: &Req = match (follow, prev_id) {
                (true, Some(id)) => {
                    followed = match req0 {
                        Req::AddVersion { c, data, .. } => Req::AddVersion { c: *c, parent: id, data: data.clone() },
                        Req::GetChild { c, .. } => Req::GetChild { c: *c, parent: id },
                        Req::AddSnapshot { c, data, .. } => Req::AddSnapshot { c: *c, v: id, data: data.clone() },
                        other => other.clone(),
                    };
                    &followed
                }
                _ => req0,
            };
            let inv = sched::stamp();
            // the serving instance reads the simulated clock plus its own skew
            let t_inv = sched::now_us() + inst.skew_us;
            let resp = if xproc && tid == n_threads - 1 {
                // one atomic step of this thread: the other process serves the request while every
                // thread of this process is parked where it is, holding the file locks it holds
                match crate::xproc::call(w_dir.as_ref().unwrap(), plan.cfg, http, inst.skew_us, plan.seed, 90_000_000 + k as u64 * 1000, req, ch) {
                    Ok((Resp::Error(e), _)) if e.starts_with("cannot open the data directory") => {
                        // the other process could not even start (directory busy): no request was made
                        xproc_skipped.fetch_add(1, std::sync::atomic::Ordering::SeqCst);
                        continue;
                    }
                    Ok((r, slept)) => {
                        if slept > 0 {
                            sched::sleep_us(slept, sched::Site::BusySleep);
                        }
                        r
                    }
                    Err(e) => {
                        *xproc_err.lock().unwrap() = Some(e);
                        continue;
                    }
                }
            } else if http {
                if apps[*ii].is_none() {
                    apps[*ii] = Some(HttpApp::new(&inst.web));
                }
                let (resp, _raw, mm) = call_http(inst, apps[*ii].as_ref().unwrap(), req, ch);
                if !mm.is_empty() {
                    // encoding problems surface as a non-matching response below
                }
                resp
            } else {
                inst.call_lib(req)
            };
            let t_ret = sched::now_us() + inst.skew_us;
            let ret = sched::stamp();
            match &resp {
                Resp::AvOk { id, .. } | Resp::GcFound { id, .. } | Resp::GsFound { id, .. } => prev_id = Some(*id),
                Resp::AvConflict { expected } => prev_id = Some(*expected),
                _ => {}
            }
            done.lock().unwrap().push(Done { tid, req: req.clone(), resp, inv, ret, t_inv, t_ret });
        }
        })
    };
    crate::vfs::set_sched_points(false);
    if let Some(e) = xproc_err.into_inner().unwrap() {
        out.harness_error = Some(format!("cross-process request could not be run: {e}"));
        return out;
    }
    if xproc {
        out.add("probe.xproc.other_process_could_not_open_directory", xproc_skipped.load(std::sync::atomic::Ordering::SeqCst));
    }
    let images = if capture {
        crate::vfs::pause_capture(true);
        crate::vfs::set_capture(false, 0, false, 0);
        crate::vfs::take_images()
    } else {
        vec![]
    };
    let mut done = done.into_inner().unwrap();
    done.sort_by_key(|d| d.inv);
    // evidence: interleaving identity and reach probes
    let mut il = Digest::default();
    for (t, s) in &so.trace {
        il.add(&[*t, *s]);
    }
    out.cases.push(il.0);
    out.add("probe.sched_points", so.steps as u64);
    if so.contended > 0 {
        out.bump("probe.lock_contention_inmemory");
    }
    if so.busy_sleeps > 0 {
        out.bump("probe.lock_contention_sqlite_busy");
        if so.busy_slept_us > 1_000_000 {
            out.bump("probe.busy_wait_over_1s");
        }
    }
    if so.stalls_fired > 0 {
        out.add("fault.stall", so.stalls_fired as u64);
    }
    if so.os_blocked > 0 {
        out.add("probe.thread_blocked_on_unknown_os_primitive", so.os_blocked);
        out.timing_dependent = true;
    }
    let overlapped = done.iter().any(|a| done.iter().any(|b| a.tid != b.tid && a.inv < b.ret && b.inv < a.ret));
    if overlapped {
        out.bump("probe.requests_overlapped");
    }
    // which pairings of operations really overlapped in time (every pairing must be reached)
    for (i, a) in done.iter().enumerate() {
        for b in done.iter().skip(i + 1) {
            if a.tid != b.tid && a.inv < b.ret && b.inv < a.ret {
                let (x, y) = if a.req.kind() <= b.req.kind() { (a.req.kind(), b.req.kind()) } else { (b.req.kind(), a.req.kind()) };
                let same = a.req.client() == b.req.client();
                out.bump(&format!("pair.overlap.{x}+{y}.{}", if same { "same_client" } else { "other_client" }));
            }
        }
    }
    let new_client_overlap = http
        && done.iter().filter(|d| matches!(d.req, Req::AddVersion { .. }) && w.model.client(&d.req.client()).is_none()).count() >= 2;
    if new_client_overlap {
        out.bump("probe.first_requests_of_new_client_overlap");
    }
    if so.overrun {
        out.violations.push(viol(&["C03"], "conc.no_progress", format!("batch did not finish within {} scheduling steps", so.steps)));
    }
    let mut tr = Digest::default();
    for d in &done {
        w.digest.add_str(&d.req.short());
        w.digest.add_str(&d.resp.short());
        tr.add_str(d.req.kind());
        tr.add_str(d.resp.class());
        out.bump(&format!("resp.{}", d.resp.class()));
    }
    let desc = |done: &[Done]| -> String {
        done.iter()
            .map(|d| format!("t{}[{}..{}] {} -> {}", d.tid, d.inv, d.ret, d.req.short(), d.resp.short()))
            .collect::<Vec<_>>()
            .join("; ")
    };
    // errors: a server error merely because another request overlapped is a violation, unless an
    // injected stall of >= 5 s explains a lock-wait timeout
    // ... or a slow node: service times and starvation by the scheduler kept some request (hence
    // possibly a lock holder) busy for about the whole lock-wait budget of simulated time
    let slow_node = done.iter().any(|d| d.t_ret - d.t_inv >= 4_400_000);
    if slow_node {
        out.bump("fault.slow_node_exceeding_lock_wait_budget");
    }
    let stalled_long = (plan.sched.stalls.iter().any(|(_, d)| *d >= 4_900_000) && so.stalls_fired > 0) || slow_node;
    let mut failed: Vec<usize> = Vec::new();
    for (i, d) in done.iter().enumerate() {
        if let Resp::Error(e) | Resp::Panic(e) = &d.resp {
            // behind an injected >= 5 s stall a request may legitimately run out of its lock-wait
            // budget; whatever the error says, it must then have had no effect (the remaining
            // requests must be linearizable and explain the final state on their own)
            let _ = e;
            if stalled_long && matches!(d.resp, Resp::Error(_)) {
                out.bump("probe.busy_timeout_behind_injected_stall");
                failed.push(i);
            } else {
                out.violations.push(viol(
                    if http { &["C03", "C14"] } else { &["C03"] },
                    "conc.server_error",
                    format!("a request failed with a server error although no fault was injected: {} (batch: {})", d.resp.short(), desc(&done)),
                ));
            }
        }
    }
    if crate::report::should_stop(&out) {
        out.digest = w.digest.0;
        return out;
    }
    // requests that timed out behind an injected stall had no effect (BEGIN IMMEDIATE never succeeded)
    let live: Vec<Done> = done.iter().enumerate().filter(|(i, _)| !failed.contains(i)).map(|(_, d)| d.clone()).collect();
    // linearizability: responses + final state
    let base_model = w.model.clone();
    w.tolerate_empty_clients = !failed.is_empty() && http;
    let mut tried = 0u32;
    let mut matched: Option<Model> = None;
    let mut state_mismatch: Option<String> = None;
    let mut state_mismatch_props: Vec<String> = Vec::new();
    let mut half_created = false;
    // every linearization that reproduces the responses and the final state, with the model after
    // each of its steps (needed to judge crash images; only the first is needed otherwise)
    let mut lins: Vec<(Vec<usize>, Vec<Model>)> = Vec::new();
    let want_all = !images.is_empty();
    {
        let wref = &mut w;
        let mut on_match = |m: &Model, order: &[usize], path: &[Model]| -> bool {
            wref.model = m.clone();
            let proj = match wref.take_projection() {
                Ok(p) => p,
                Err(e) => {
                    state_mismatch = Some(format!("projection failed: {e:#}"));
                    return false;
                }
            };
            let mut vs = Vec::new();
            wref.compare_state(&proj, &mut vs);
            if vs.is_empty() {
                wref.proj = proj;
                if matched.is_none() {
                    matched = Some(m.clone());
                }
                lins.push((order.to_vec(), path.to_vec()));
                !want_all
            } else {
                state_mismatch = Some(vs[0].msg.clone());
                state_mismatch_props = vs[0].props.clone();
                false
            }
        };
        let mut placed = Vec::new();
        let mut path = Vec::new();
        let found_strict = std::cell::Cell::new(false);
        {
            let mut om = |m: &Model, o: &[usize], p: &[Model]| -> bool {
                let r = on_match(m, o, p);
                if r || want_all {
                    // on_match pushed a linearization iff the state matched
                }
                r
            };
            search(&live, &done, &mut placed, &mut path, &base_model, http, false, &mut om, &mut tried);
        }
        let _ = &found_strict;
    }
    let strict_found = !lins.is_empty();
    if (lins.is_empty() || want_all) && http {
        // second, relaxed search: recognises known finding F1 and nothing else. It also runs when
        // crash images are to be judged: the real commit order may be one that only F1 explains
        // (an AddSnapshot that saw the half-created client before the AddVersion committed)
        let wref = &mut w;
        let mut on_match2 = |m: &Model, order: &[usize], path: &[Model]| -> bool {
            wref.model = m.clone();
            let proj = match wref.take_projection() {
                Ok(p) => p,
                Err(_) => return false,
            };
            let mut vs = Vec::new();
            wref.compare_state(&proj, &mut vs);
            if vs.is_empty() {
                wref.proj = proj;
                if matched.is_none() {
                    matched = Some(m.clone());
                }
                if !lins.iter().any(|(o, _)| o.as_slice() == order) {
                    lins.push((order.to_vec(), path.to_vec()));
                }
                !want_all
            } else {
                false
            }
        };
        let mut placed = Vec::new();
        let mut path = Vec::new();
        let mut tried2 = 0;
        search(&live, &done, &mut placed, &mut path, &base_model, http, true, &mut on_match2, &mut tried2);
        if !lins.is_empty() && !strict_found {
            half_created = true;
        }
    }
    out.add("probe.linearizations_tried", tried as u64);
    if half_created {
        out.violations.push(viol(
            &["C03"],
            "conc.add_snapshot_sees_half_created_client",
            format!("an AddSnapshot overlapping the first AddVersion of a new client was answered 200 although the client does not exist in any one-at-a-time order (404): batch: {}", desc(&live)),
        ));
    }
    match matched {
        Some(m) => {
            w.model = m;
            // sequential observation on the agreed state: chains walk, snapshots are usable bases
            w.full_check(&mut out);
            // crash images taken while several requests were in flight: each must hold the effects of
            // all acknowledged requests, of any subset of the started ones, in some real-time order
            if !images.is_empty() && !crate::report::should_stop(&out) {
                let all_ids: std::collections::BTreeSet<uuid::Uuid> = w.model.known_ids();
                for (ii, img) in images.iter().enumerate() {
                    out.bump(&format!("fault.crash_during_overlap.{}", img.kind));
                    if let Some(v) = verify_overlap_image(plan, &base_model, &live, &lins, img, ii, &all_ids) {
                        out.violations.push(v);
                        break;
                    }
                }
                out.add("probe.overlap_crash_images_verified", images.len() as u64);
            }
            // bounded liveness after faults stop: a fresh request is served without waiting
            let t0 = sched::now_us();
            for c in w.clients.clone() {
                let req = Req::GetChild { c, parent: uuid::Uuid::nil() };
                let r = w.inst.call_lib(&req);
                if matches!(r, Resp::Error(_) | Resp::Panic(_)) {
                    out.violations.push(viol(&["C03"], "conc.not_served_after_batch", format!("after the batch a request failed: {}", r.short())));
                }
            }
            if sched::now_us() - t0 > 1_000_000 {
                out.violations.push(viol(&["C03"], "conc.lock_leaked", "a request after the batch had to wait for a lock".into()));
            }
        }
        None => {
            w.model = base_model;
            // specific diagnoses first
            let accepted: Vec<&Done> = live.iter().filter(|d| matches!(d.resp, Resp::AvOk { .. })).collect();
            let mut double = None;
            for a in &accepted {
                for b in &accepted {
                    if let (Req::AddVersion { c: ca, parent: pa, .. }, Req::AddVersion { c: cb, parent: pb, .. }) = (&a.req, &b.req) {
                        if a.inv != b.inv && ca == cb && pa == pb {
                            double = Some((sid(ca), sid(pa)));
                        }
                    }
                }
            }
            let all = desc(&done);
            let why = if tried == 0 { "no ordering reproduces the responses".to_string() } else { format!("orderings reproduce the responses but not the final state ({})", state_mismatch.clone().unwrap_or_default()) };
            if let Some((c, p)) = double {
                out.violations.push(viol(&["C03", "C01", "C07"], "conc.double_accept", format!("two overlapping AddVersion requests of client {c} were both accepted on parent {p}; {why}; batch: {}", desc(&live))));
            } else {
                let props: &[&str] = if live.iter().any(|d| matches!(d.req, Req::AddSnapshot { .. } | Req::GetSnapshot { .. })) {
                    &["C03", "C11"]
                } else if live.iter().any(|d| matches!(d.req, Req::GetChild { .. })) {
                    // found / not-found / gone must agree with AddVersion also when they overlap
                    &["C03", "C08", "C02"]
                } else {
                    // only AddVersion requests: the compare-and-append itself
                    &["C03", "C02"]
                };
                let mut v = viol(props, "conc.not_linearizable", format!("{why}; batch: {}; all requests incl. those failed behind an injected stall: {}", desc(&live), all));
                // when the responses are explainable but the stored state is not, the state oracle
                // that failed names the further properties concerned (e.g. payload bytes: C06)
                if tried > 0 {
                    for p in &state_mismatch_props {
                        if !v.props.contains(p) {
                            v.props.push(p.clone());
                        }
                    }
                }
                out.violations.push(v);
            }
        }
    }
    out.cells.push(tr.0);
    out.digest = w.digest.0 ^ il.0;
    out.sim_us = (sched::now_us() - plan.start_us).abs() + (sched::now_us() - t_batch).abs();
    out.bump(&format!("cfg.backend.{:?}", plan.backend));
    out.bump(&format!("cfg.entry.{:?}", plan.entry));
    out.bump(&format!("cfg.instances.{}", insts.len()));
    out.bump(&format!("cfg.threads.{}", n_threads));
    out.bump(&format!("cfg.strategy.{}", match plan.sched.strategy { Strategy::Random => "random", Strategy::Sticky(_) => "sticky", Strategy::Pct { .. } => "pct", Strategy::Preempt { .. } => "preempt" }));
    out.sample = Some(serde_json::json!({
        "scenario": "conc", "seed": plan.seed, "backend": format!("{:?}", plan.backend), "entry": format!("{:?}", plan.entry),
        "instances": insts.len(), "threads": n_threads, "strategy": format!("{:?}", plan.sched.strategy),
        "prefix_ops": plan.prefix.len(),
        "batch": desc(&done),
        "schedule_trace_thread_site": so.trace.iter().take(60).map(|(t, s)| format!("{t}:{s}")).collect::<Vec<_>>().join(" "),
    }));
    // keep the schedule for replay
    SCHED_CHOICES.with(|c| *c.borrow_mut() = so.choices.clone());
    out
}

thread_local! {
    /// decisions of the last scheduled batch (to pin a replay file to an explicit schedule)
    pub static SCHED_CHOICES: std::cell::RefCell<Vec<u8>> = const { std::cell::RefCell::new(Vec::new()) };
}

/// Pin the plan to the explicit schedule its last execution took.
pub fn pin_schedule(plan: &ConcPlan) -> ConcPlan {
    let mut p = plan.clone();
    if p.sched.replay.is_none() {
        let _ = exec(&p);
        p.sched.replay = Some(SCHED_CHOICES.with(|c| c.borrow().clone()));
    }
    p
}

pub fn shrink(plan: &ConcPlan) -> Vec<ConcPlan> {
    let mut c = Vec::new();
    // drop prefix operations
    let n = plan.prefix.len();
    let mut chunk = (n / 2).max(1);
    while n > 0 {
        let mut i = 0;
        while i + chunk <= n {
            let mut p = plan.clone();
            p.prefix.drain(i..i + chunk);
            c.push(p);
            i += chunk;
        }
        if chunk <= 1 {
            break;
        }
        chunk /= 2;
    }
    // drop batch requests / threads
    for t in 0..plan.batch.len() {
        for k in 0..plan.batch[t].len() {
            let mut p = plan.clone();
            p.batch[t].remove(k);
            if p.batch[t].is_empty() {
                p.batch.remove(t);
            }
            if p.batch.len() >= 1 {
                c.push(p);
            }
        }
    }
    // fewer instances, no skew, no stalls, no service time
    if plan.instances > 1 {
        let mut p = plan.clone();
        p.instances = 1;
        c.push(p);
    }
    if plan.skews_us.iter().any(|s| *s != 0) {
        let mut p = plan.clone();
        p.skews_us = vec![0, 0, 0];
        c.push(p);
    }
    if !plan.sched.stalls.is_empty() {
        let mut p = plan.clone();
        p.sched.stalls.clear();
        c.push(p);
    }
    if plan.sched.service_max_us != 0 {
        let mut p = plan.clone();
        p.sched.service_max_us = 0;
        c.push(p);
    }
    // simplify the explicit schedule: replace a decision by "keep running the current thread"
    if let Some(rp) = &plan.sched.replay {
        // remove context switches one at a time (make decision i equal to decision i-1)
        for i in 1..rp.len() {
            if rp[i] != rp[i - 1] {
                let mut p = plan.clone();
                let mut v = rp.clone();
                v[i] = v[i - 1];
                p.sched.replay = Some(v);
                c.push(p);
            }
        }
    }
    if plan.page_size.is_some() {
        let mut p = plan.clone();
        p.page_size = None;
        c.push(p);
    }
    if plan.xproc {
        let mut p = plan.clone();
        p.xproc = false;
        c.push(p);
    }
    if plan.same_worker {
        let mut p = plan.clone();
        p.same_worker = false;
        c.push(p);
    }
    if plan.crash_images > 0 {
        let mut p = plan.clone();
        p.crash_images = 0;
        c.push(p);
    }
    c
}

/// Recover an image captured during a batch. The durable state must be what some valid
/// linearization leaves after a prefix (in its order) that contains every acknowledged *effect*
/// and only requests that had started: acknowledged writes are present, each request in flight is
/// completely applied or completely absent.
fn verify_overlap_image(plan: &ConcPlan, base: &Model, live: &[Done], lins: &[(Vec<usize>, Vec<Model>)], img: &crate::vfs::Image, idx: usize, all_ids: &std::collections::BTreeSet<uuid::Uuid>) -> Option<crate::report::Violation> {
    let dir = crate::world::fresh_dir("oimg");
    if crate::vfs::materialise(img, &dir).is_err() {
        return None;
    }
    let label = format!("image #{idx} ({} before `{}`, event {}, {})", img.kind, img.at_call, img.stamp, img.detail.trim());
    let t_save = sched::now_us();
    let sig = |m: &Model| -> String {
        m.clients
            .iter()
            .map(|(k, c)| format!("{}:{}:{}:{:?}:{:?}", k, c.exists, c.versions.len(), c.versions.last().map(|v| v.id), c.snap.as_ref().map(|s| (s.version, s.since, crate::rng::fnv(&s.data)))))
            .collect::<Vec<_>>()
            .join("|")
    };
    let result = (|| -> Option<crate::report::Violation> {
        let mut w = match World::attach(plan.seed, &dir, Entry::Lib, plan.n_clients, plan.cfg, base.clone()) {
            Ok(w) => w,
            Err(e) => return Some(viol(&["C04"], "crash.cannot_open", format!("{label}: the database does not open after a crash during overlapping requests: {e:#}"))),
        };
        match rusqlite::Connection::open(dir.join(crate::world::DB_FILE)).and_then(|c| c.query_row("PRAGMA integrity_check", [], |r| r.get::<_, String>(0))) {
            Ok(s) if s == "ok" => {}
            Ok(s) => return Some(viol(&["C04"], "crash.integrity", format!("{label}: integrity_check says {s}"))),
            Err(e) => return Some(viol(&["C04"], "crash.integrity", format!("{label}: integrity_check failed: {e}"))),
        }
        w.extra_ids = all_ids.clone();
        w.tolerate_empty_clients = true;
        let proj = match w.take_projection() {
            Ok(p) => p,
            Err(e) => return Some(viol(&["C04"], "crash.unreadable", format!("{label}: {e:#}"))),
        };
        let mut why = String::new();
        let mut tried_sigs: std::collections::BTreeSet<String> = Default::default();
        for (order, path) in lins {
            // path[j] = model after order[0..=j]; state before anything = base
            let mut prev_sig = sig(base);
            // index of the last acknowledged effect in this order
            let mut must_reach: usize = 0; // number of steps that must be included
            let mut effect: Vec<bool> = Vec::new();
            for (j, oi) in order.iter().enumerate() {
                let sg = sig(&path[j]);
                let has_effect = sg != prev_sig;
                prev_sig = sg;
                effect.push(has_effect);
                if has_effect && live[*oi].ret < img.stamp {
                    must_reach = j + 1;
                }
            }
            for k in must_reach..=order.len() {
                // every effect among the first k steps must belong to a request that had started
                if (0..k).any(|j| effect[j] && live[order[j]].inv >= img.stamp) {
                    break;
                }
                let m = if k == 0 { base } else { &path[k - 1] };
                let sg = sig(m);
                if !tried_sigs.insert(sg) {
                    continue;
                }
                w.model = m.clone();
                let mut vs = Vec::new();
                w.compare_state(&proj, &mut vs);
                if vs.is_empty() {
                    return None;
                }
                if std::env::var("VERIF_DEBUG_OVERLAP").is_ok() {
                    eprintln!("DEBUG overlap image #{idx}: order {:?} prefix {k} rejected: {}", order, vs[0].msg);
                }
                why = vs[0].msg.clone();
            }
        }
        Some(viol(
            &["C04", "C03"],
            "crash.overlap_half_applied_or_lost",
            format!(
                "{label}: the recovered state is not a commit-order prefix (containing every acknowledged write) of any valid ordering of the batch ({why}); batch: {}",
                live.iter().map(|d| format!("t{}[{}..{}] {} -> {}", d.tid, d.inv, d.ret, d.req.short(), d.resp.short())).collect::<Vec<_>>().join("; ")
            ),
        ))
    })();
    sched::set_now_us(t_save);
    let _ = std::fs::remove_dir_all(&dir);
    result
}
