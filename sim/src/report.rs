//! Run outcomes, aggregation and evidence.

use crate::model::Mismatch;
use serde::{Deserialize, Serialize};
use std::collections::{BTreeMap, BTreeSet};

#[derive(Clone, Debug, Serialize, Deserialize)]
pub struct Violation {
    pub props: Vec<String>,
    pub oracle: String,
    pub msg: String,
}

impl From<Mismatch> for Violation {
    fn from(m: Mismatch) -> Self {
        Violation {
            props: m.props.iter().map(|s| s.to_string()).collect(),
            oracle: m.oracle.to_string(),
            msg: m.msg,
        }
    }
}

pub fn viol(props: &[&str], oracle: &str, msg: String) -> Violation {
    Violation {
        props: props.iter().map(|s| s.to_string()).collect(),
        oracle: oracle.to_string(),
        msg,
    }
}

/// The outcome of one simulated run.
#[derive(Default, Debug)]
pub struct RunOut {
    pub violations: Vec<Violation>,
    /// counters: fault kinds fired, reach probes, outcome classes
    pub stats: BTreeMap<String, u64>,
    /// hashes of distinct non-trivial cases this run covered (see each scenario's rule)
    pub cases: Vec<u64>,
    /// hashes of distinct reach-grid cells
    pub cells: Vec<u64>,
    /// a written-out rendering of the run (kept for a few runs only)
    pub sample: Option<serde_json::Value>,
    /// digest of the full event log (determinism proof)
    pub digest: u64,
    /// simulated time covered, µs
    pub sim_us: i64,
    /// a harness-level problem (not a property violation)
    pub harness_error: Option<String>,
    /// the run took the real-time-dependent path of the scheduler (a thread blocked on an OS
    /// primitive the simulator does not know): it is exempt from the determinism comparison
    pub timing_dependent: bool,
}

impl RunOut {
    pub fn bump(&mut self, k: &str) {
        *self.stats.entry(k.to_string()).or_insert(0) += 1;
    }
    pub fn add(&mut self, k: &str, n: u64) {
        *self.stats.entry(k.to_string()).or_insert(0) += n;
    }
    pub fn first_for(&self, prop: &str) -> Option<&Violation> {
        self.violations.iter().find(|v| v.props.iter().any(|p| p == prop))
    }
    pub fn has(&self, prop: &str, oracle: &str) -> bool {
        self.violations
            .iter()
            .any(|v| v.oracle == oracle && v.props.iter().any(|p| p == prop))
    }
}

#[derive(Clone, Debug, Serialize, Deserialize)]
pub struct FoundViolation {
    pub property: String,
    pub oracle: String,
    pub msg: String,
    pub seed: u64,
    pub scenario: String,
    pub replay: String,
    pub shrunk_from: usize,
    pub shrunk_to: usize,
    #[serde(default)]
    pub signature: String,
    /// replay file of the plan as generated (only when minimisation changed it)
    #[serde(default)]
    pub replay_full: String,
}

#[derive(Clone, Debug, Default, Serialize, Deserialize)]
pub struct ShardReport {
    pub runs: u64,
    pub stats: BTreeMap<String, u64>,
    pub violations: Vec<FoundViolation>,
    /// violations of *other* properties seen in shared scenarios (logged as notes)
    pub notes: BTreeMap<String, u64>,
    pub samples: Vec<serde_json::Value>,
    pub sim_us: i128,
    pub wall_s: f64,
    pub first_seed: u64,
    pub last_seed: u64,
    pub harness_errors: Vec<String>,
    pub digest_xor: u64,
    pub per_job: BTreeMap<String, u64>,
}

#[derive(Default)]
pub struct Agg {
    pub rep: ShardReport,
    pub cases: BTreeSet<u64>,
    pub cells: BTreeSet<u64>,
}

impl Agg {
    pub fn absorb(&mut self, job: &str, seed: u64, out: &mut RunOut) {
        self.rep.runs += 1;
        *self.rep.per_job.entry(job.to_string()).or_insert(0) += 1;
        for (k, v) in &out.stats {
            *self.rep.stats.entry(k.clone()).or_insert(0) += v;
        }
        for c in &out.cases {
            self.cases.insert(*c);
        }
        for c in &out.cells {
            self.cells.insert(*c);
        }
        if self.rep.samples.len() < 3 {
            if let Some(s) = out.sample.take() {
                self.rep.samples.push(s);
            }
        }
        self.rep.sim_us += out.sim_us as i128;
        self.rep.digest_xor ^= crate::rng::mix(&[seed, out.digest]);
        if let Some(e) = &out.harness_error {
            if self.rep.harness_errors.len() < 10 {
                self.rep.harness_errors.push(format!("seed {seed}: {e}"));
            }
        }
    }
}

pub fn write_u64s(path: &std::path::Path, xs: &BTreeSet<u64>) -> std::io::Result<()> {
    let mut buf = Vec::with_capacity(xs.len() * 8);
    for x in xs {
        buf.extend_from_slice(&x.to_le_bytes());
    }
    std::fs::write(path, buf)
}

pub fn read_u64s(path: &std::path::Path, into: &mut BTreeSet<u64>) {
    if let Ok(b) = std::fs::read(path) {
        for ch in b.chunks_exact(8) {
            into.insert(u64::from_le_bytes(ch.try_into().unwrap()));
        }
    }
}

/// The property under check (set by the worker / replay). A run stops at the first violation of
/// *that* property; oracles of other properties that fire on the way are kept as notes, so that a
/// breakage of one property cannot mask a later breakage of the property being checked.
static FOCUS: std::sync::RwLock<Option<String>> = std::sync::RwLock::new(None);

pub fn set_focus(p: Option<String>) {
    *FOCUS.write().unwrap() = p;
}

pub fn should_stop(out: &RunOut) -> bool {
    if out.harness_error.is_some() {
        return true;
    }
    match FOCUS.read().unwrap().as_ref() {
        None => !out.violations.is_empty(),
        Some(f) => out.violations.len() > 40 || out.violations.iter().any(|v| v.props.iter().any(|p| p == f)),
    }
}
