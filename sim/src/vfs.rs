//! Shim SQLite VFS over the real `unix` VFS, registered as the process default so that the
//! repository's unmodified `Connection::open(path)` picks it up.
//!
//! * `xSleep`, `xCurrentTime*`, `xRandomness` go to the simulator (busy waits cost simulated time
//!   only and are scheduling points).
//! * every file call is counted and digested; a fault plan can make the k-th call fail;
//! * a shadow durability model (content as of the last `xSync` + later writes) produces
//!   power-loss images; process-crash images are the real files as they are.

use crate::rng::{Digest, Rng};
use crate::sched::{self, Site};
use rusqlite::ffi;
use serde::{Deserialize, Serialize};
use std::collections::BTreeMap;
use std::ffi::{c_char, c_int, c_void, CStr};
use std::path::{Path, PathBuf};
use std::sync::Mutex;

#[derive(Clone, Copy, Debug, PartialEq, Eq, Serialize, Deserialize, PartialOrd, Ord)]
pub enum FaultKind {
    WriteIoErr,
    WriteFull,
    SyncIoErr,
    ReadIoErr,
    ReadShort,
    OpenCantOpen,
    TruncateIoErr,
    DeleteIoErr,
    ShmMapNoMem,
    ShmLockBusy,
    LockBusy,
    LockIoErr,
    AccessIoErr,
    FileSizeIoErr,
}

pub const ALL_FAULTS: &[FaultKind] = &[
    FaultKind::WriteIoErr,
    FaultKind::WriteFull,
    FaultKind::SyncIoErr,
    FaultKind::ReadIoErr,
    // ReadShort is deliberately NOT injected: SQLITE_IOERR_SHORT_READ tells SQLite "the file ends
    // here, the rest is zeros", so returning it for an in-range read is silent data corruption,
    // not a failing storage step (it produced a false alarm under VERIF_SEED=6; see DESIGN §16)
    FaultKind::OpenCantOpen,
    FaultKind::TruncateIoErr,
    FaultKind::DeleteIoErr,
    FaultKind::ShmMapNoMem,
    FaultKind::ShmLockBusy,
    FaultKind::LockBusy,
    FaultKind::LockIoErr,
    FaultKind::AccessIoErr,
    FaultKind::FileSizeIoErr,
];

#[derive(Clone, Copy, Debug, PartialEq, Eq, Serialize, Deserialize)]
pub enum CallKind {
    Open,
    Read,
    Write,
    Truncate,
    Sync,
    Delete,
    Lock,
    ShmMap,
    ShmLock,
    Access,
    FileSize,
}

impl FaultKind {
    pub fn applies_to(self) -> CallKind {
        match self {
            FaultKind::WriteIoErr | FaultKind::WriteFull => CallKind::Write,
            FaultKind::SyncIoErr => CallKind::Sync,
            FaultKind::ReadIoErr | FaultKind::ReadShort => CallKind::Read,
            FaultKind::OpenCantOpen => CallKind::Open,
            FaultKind::TruncateIoErr => CallKind::Truncate,
            FaultKind::DeleteIoErr => CallKind::Delete,
            FaultKind::ShmMapNoMem => CallKind::ShmMap,
            FaultKind::ShmLockBusy => CallKind::ShmLock,
            FaultKind::LockBusy | FaultKind::LockIoErr => CallKind::Lock,
            FaultKind::AccessIoErr => CallKind::Access,
            FaultKind::FileSizeIoErr => CallKind::FileSize,
        }
    }
    fn code(self) -> c_int {
        match self {
            FaultKind::WriteIoErr => ffi::SQLITE_IOERR_WRITE,
            FaultKind::WriteFull => ffi::SQLITE_FULL,
            FaultKind::SyncIoErr => ffi::SQLITE_IOERR_FSYNC,
            FaultKind::ReadIoErr => ffi::SQLITE_IOERR_READ,
            FaultKind::ReadShort => ffi::SQLITE_IOERR_SHORT_READ,
            FaultKind::OpenCantOpen => ffi::SQLITE_CANTOPEN,
            FaultKind::TruncateIoErr => ffi::SQLITE_IOERR_TRUNCATE,
            FaultKind::DeleteIoErr => ffi::SQLITE_IOERR_DELETE,
            FaultKind::ShmMapNoMem => ffi::SQLITE_IOERR_NOMEM,
            FaultKind::ShmLockBusy | FaultKind::LockBusy => ffi::SQLITE_BUSY,
            FaultKind::LockIoErr => ffi::SQLITE_IOERR_LOCK,
            FaultKind::AccessIoErr => ffi::SQLITE_IOERR_ACCESS,
            FaultKind::FileSizeIoErr => ffi::SQLITE_IOERR_FSTAT,
        }
    }
}

/// Fail the `nth` call (0-based, counted from `begin_window`) of the kind the fault applies to;
/// `sticky` keeps failing every later call of that kind for `window` further calls.
#[derive(Clone, Copy, Debug, Serialize, Deserialize, PartialEq)]
pub struct VfsFault {
    pub kind: FaultKind,
    pub nth: u32,
    pub sticky: u32,
}

#[derive(Clone, Debug)]
enum Pend {
    Write(u64, Vec<u8>),
    Truncate(u64),
}

#[derive(Clone, Debug, Default)]
struct Shadow {
    /// content as of the last xSync (None = the file does not durably exist)
    durable: Option<Vec<u8>>,
    pending: Vec<Pend>,
    /// the file currently exists in the (volatile) directory
    exists_now: bool,
    /// a delete not yet made durable (unix VFS: xDelete with dirSync=0)
    volatile_delete: bool,
}

#[derive(Clone, Debug)]
pub struct Image {
    pub point: u64,
    /// scheduler event number at capture (to know which overlapping requests had returned / started)
    pub stamp: u64,
    pub req: i64,
    pub kind: &'static str,
    pub at_call: String,
    pub files: Vec<(String, Vec<u8>)>,
    pub detail: String,
}

#[derive(Default)]
pub struct VfsState {
    pub installed: bool,
    files: BTreeMap<u64, (PathBuf, c_int)>,
    next_id: u64,
    track_dir: Option<PathBuf>,
    shadow: BTreeMap<String, Shadow>,
    // window counters
    pub calls: BTreeMap<&'static str, u64>,
    kind_count: BTreeMap<u8, u32>,
    pub mut_calls: u64,
    pub total_calls: u64,
    fault: Option<VfsFault>,
    pub fault_fired: Vec<String>,
    // capture
    capture: bool,
    /// capture only while a request is executing (not during the harness's own state reads)
    capture_paused: bool,
    capture_power: u32,
    capture_garbage: bool,
    capture_budget: usize,
    pub capture_skipped: u64,
    pub images: Vec<Image>,
    pub cur_req: i64,
    crash_rng: Option<Rng>,
    pub digest: Digest,
    rand_state: u64,
    pub wal_survived_request: u64,
    pub checkpoint_writes: u64,
}

static STATE: Mutex<Option<VfsState>> = Mutex::new(None);
/// raw-storage mode: lock / open / sync / delete calls of SQLite are scheduling points
static SCHED_POINTS: std::sync::atomic::AtomicBool = std::sync::atomic::AtomicBool::new(false);

pub fn set_sched_points(on: bool) {
    SCHED_POINTS.store(on, std::sync::atomic::Ordering::SeqCst);
}

fn with<R>(f: impl FnOnce(&mut VfsState) -> R) -> R {
    let mut g = STATE.lock().unwrap();
    if g.is_none() {
        *g = Some(VfsState::default());
    }
    f(g.as_mut().unwrap())
}

// ---------------------------------------------------------------------------------------------
// control API

/// Reset per-run state: deterministic randomness, counters, shadow model for `dir`.
pub fn begin_run(seed: u64, dir: Option<&Path>) {
    install();
    foreign_release_now();
    foreign_read_release_now();
    with(|s| {
        s.track_dir = dir.map(|d| d.to_path_buf());
        s.shadow.clear();
        s.calls.clear();
        s.kind_count.clear();
        s.mut_calls = 0;
        s.total_calls = 0;
        s.fault = None;
        s.fault_fired.clear();
        s.capture = false;
        s.capture_paused = true;
        s.images.clear();
        s.capture_skipped = 0;
        s.cur_req = -1;
        s.crash_rng = Some(Rng::stream(seed, "crash"));
        s.digest = Digest::default();
        s.rand_state = crate::rng::mix(&[seed, 0x5EED_5A17]);
        s.wal_survived_request = 0;
        s.checkpoint_writes = 0;
    });
    // make SQLite's process-global PRNG re-seed itself from xRandomness
    unsafe { ffi::sqlite3_randomness(0, std::ptr::null_mut()) };
}

/// Treat everything currently on disk in the tracked directory as durable (the machine has been
/// up for a while before the history starts).
pub fn mark_all_durable() {
    with(|s| {
        let dir = match &s.track_dir {
            Some(d) => d.clone(),
            None => return,
        };
        s.shadow.clear();
        if let Ok(rd) = std::fs::read_dir(&dir) {
            for e in rd.flatten() {
                let name = e.file_name().to_string_lossy().to_string();
                if name.ends_with("-shm") {
                    continue;
                }
                if let Ok(b) = std::fs::read(e.path()) {
                    s.shadow.insert(
                        name,
                        Shadow {
                            durable: Some(b),
                            pending: vec![],
                            exists_now: true,
                            volatile_delete: false,
                        },
                    );
                }
            }
        }
    });
}

// ---------------------------------------------------------------------------------------------
// statement-level fault: SQLITE_INTERRUPT in the middle of a statement. Every connection SQLite opens
// in this process gets a progress handler (installed through an auto-extension, so also the
// connections the code under test opens itself); it is called every few virtual-machine instructions
// and, when armed, makes the statement running at the chosen callback fail with SQLITE_INTERRUPT.
// This reaches the points BETWEEN the statements of one storage call, which neither the storage-call
// faults (whole calls) nor the VFS faults (the pager mostly works from its cache) can reach.

static PROGRESS_CALLS: std::sync::atomic::AtomicU64 = std::sync::atomic::AtomicU64::new(0);
/// u64::MAX = not armed
static INTERRUPT_AT: std::sync::atomic::AtomicU64 = std::sync::atomic::AtomicU64::new(u64::MAX);
static INTERRUPT_FIRED: std::sync::atomic::AtomicU64 = std::sync::atomic::AtomicU64::new(0);
const PROGRESS_EVERY: c_int = 6;

unsafe extern "C" fn progress_cb(_ctx: *mut c_void) -> c_int {
    use std::sync::atomic::Ordering::SeqCst;
    let n = PROGRESS_CALLS.fetch_add(1, SeqCst);
    if n == INTERRUPT_AT.load(SeqCst) {
        INTERRUPT_FIRED.fetch_add(1, SeqCst);
        return 1;
    }
    0
}

unsafe extern "C" fn auto_ext(db: *mut ffi::sqlite3, _err: *mut *mut c_char, _api: *const ffi::sqlite3_api_routines) -> c_int {
    ffi::sqlite3_progress_handler(db, PROGRESS_EVERY, Some(progress_cb), std::ptr::null_mut());
    ffi::SQLITE_OK
}

/// Start counting progress callbacks from zero; `at`: make the callback with this index interrupt.
pub fn begin_interrupt_window(at: Option<u64>) {
    use std::sync::atomic::Ordering::SeqCst;
    PROGRESS_CALLS.store(0, SeqCst);
    INTERRUPT_FIRED.store(0, SeqCst);
    INTERRUPT_AT.store(at.unwrap_or(u64::MAX), SeqCst);
}

/// Disarm; returns (callbacks seen, interrupts delivered).
pub fn end_interrupt_window() -> (u64, u64) {
    use std::sync::atomic::Ordering::SeqCst;
    INTERRUPT_AT.store(u64::MAX, SeqCst);
    (PROGRESS_CALLS.load(SeqCst), INTERRUPT_FIRED.load(SeqCst))
}

pub fn begin_window(fault: Option<VfsFault>) {
    with(|s| {
        s.kind_count.clear();
        s.fault = fault;
        s.fault_fired.clear();
    });
}

pub fn end_window() -> Vec<String> {
    with(|s| {
        s.fault = None;
        std::mem::take(&mut s.fault_fired)
    })
}

/// Number of calls of each kind since `begin_window`.
pub fn window_counts() -> BTreeMap<u8, u32> {
    with(|s| s.kind_count.clone())
}

pub fn set_capture(on: bool, power_images: u32, garbage: bool, budget_bytes: usize) {
    with(|s| {
        s.capture = on;
        s.capture_power = power_images;
        s.capture_garbage = garbage;
        s.capture_budget = budget_bytes;
    });
}

pub fn pause_capture(p: bool) {
    with(|s| s.capture_paused = p);
}

pub fn track(dir: &Path) {
    with(|s| s.track_dir = Some(dir.to_path_buf()));
}

pub fn set_cur_req(r: i64) {
    with(|s| s.cur_req = r);
}

pub fn take_images() -> Vec<Image> {
    with(|s| std::mem::take(&mut s.images))
}

pub fn snapshot_stats() -> (BTreeMap<&'static str, u64>, u64, u64, u64) {
    with(|s| (s.calls.clone(), s.mut_calls, s.capture_skipped, s.digest.0))
}

/// Capture the images "as of now" explicitly (used between requests).
pub fn capture_now(label: &str) {
    with(|s| {
        if s.capture {
            capture(s, label);
        }
    });
    let _ = label;
}

pub fn wal_exists() -> bool {
    with(|s| s.shadow.iter().any(|(k, v)| k.ends_with("-wal") && v.exists_now))
}

// ---------------------------------------------------------------------------------------------
// shadow model + images

fn tracked_name(s: &VfsState, p: &Path) -> Option<String> {
    let d = s.track_dir.as_ref()?;
    if p.parent()? == d.as_path() {
        let n = p.file_name()?.to_string_lossy().to_string();
        if n.ends_with("-shm") {
            None
        } else {
            Some(n)
        }
    } else {
        None
    }
}

fn apply(buf: &mut Vec<u8>, p: &Pend) {
    match p {
        Pend::Write(off, data) => {
            let end = *off as usize + data.len();
            if buf.len() < end {
                buf.resize(end, 0);
            }
            buf[*off as usize..end].copy_from_slice(data);
        }
        Pend::Truncate(sz) => {
            buf.resize(*sz as usize, 0);
        }
    }
}

const SECTOR: usize = 512;

fn stray_entries(dir: &Path, shadow: &BTreeMap<String, Shadow>) -> Vec<(String, Vec<u8>)> {
    let mut out = Vec::new();
    let rd = match std::fs::read_dir(dir) {
        Ok(r) => r,
        Err(_) => return out,
    };
    let mut names: Vec<(String, bool)> = rd
        .filter_map(|e| e.ok())
        .map(|e| (e.file_name().to_string_lossy().to_string(), e.file_type().map(|t| t.is_dir()).unwrap_or(false)))
        .collect();
    names.sort();
    for (n, is_dir) in names {
        if shadow.contains_key(&n) || n.ends_with("-shm") {
            continue;
        }
        if is_dir {
            out.push((format!("{n}/"), Vec::new()));
        } else if let Ok(b) = std::fs::read(dir.join(&n)) {
            if b.len() <= 1 << 20 {
                out.push((n, b));
            }
        }
    }
    out
}

fn capture(s: &mut VfsState, at_call: &str) {
    let dir = match &s.track_dir {
        Some(d) => d.clone(),
        None => return,
    };
    let used: usize = s.images.iter().map(|i| i.files.iter().map(|f| f.1.len()).sum::<usize>()).sum();
    if used > s.capture_budget {
        s.capture_skipped += 1;
        return;
    }
    let point = s.mut_calls;
    // process-crash image: the real files exactly as they are
    let mut files = Vec::new();
    for (name, sh) in &s.shadow {
        if sh.exists_now {
            if let Ok(b) = std::fs::read(dir.join(name)) {
                files.push((name.clone(), b));
            }
        }
    }
    // whatever else the code under test keeps in the data directory outside SQLite's file I/O
    // (lock directories of the dot-file locking VFS, side files written with std::fs): it survives
    // a kill, and may survive a power loss. Directories are recorded as "name/".
    let strays = stray_entries(&dir, &s.shadow);
    files.extend(strays.iter().cloned());
    let stamp = sched::seq_now();
    s.images.push(Image {
        point,
        stamp,
        req: s.cur_req,
        kind: "process_crash",
        at_call: at_call.to_string(),
        files,
        detail: String::new(),
    });
    // power-loss images: durable content + a subset of the later writes, each kept, dropped or torn
    let mut rng = s.crash_rng.take().unwrap_or_else(|| Rng::new(1));
    for k in 0..s.capture_power {
        let mut files = Vec::new();
        let mut detail = String::new();
        // strategy: 0 = drop everything unsynced, 1 = keep everything, else random per write
        let strat = if k == 0 { 0 } else { rng.below(5) };
        for (name, sh) in &s.shadow {
            let mut buf = match &sh.durable {
                Some(b) => Some(b.clone()),
                None => None,
            };
            // a file that was never synced may or may not have reached the directory
            if buf.is_none() {
                if sh.exists_now && !sh.pending.is_empty() && strat != 0 && rng.chance(1, 2) {
                    buf = Some(Vec::new());
                } else {
                    continue;
                }
            }
            // a delete that was not dir-synced may not have happened
            if !sh.exists_now {
                if !(sh.volatile_delete && strat != 0 && rng.chance(1, 3)) {
                    continue;
                }
                detail.push_str(&format!("{name}:resurrected "));
            }
            let mut b = buf.unwrap();
            let (mut kept, mut dropped, mut torn) = (0, 0, 0);
            for p in &sh.pending {
                let choice = match strat {
                    0 => 1,
                    1 => 0,
                    _ => rng.below(4),
                };
                match choice {
                    0 | 2 => {
                        apply(&mut b, p);
                        kept += 1;
                    }
                    1 => dropped += 1,
                    _ => {
                        // torn at sector granularity
                        if let Pend::Write(off, data) = p {
                            let nsec = data.len().div_ceil(SECTOR).max(1);
                            let prefix = rng.chance(1, 2);
                            let cut = rng.below(nsec as u64 + 1) as usize;
                            for i in 0..nsec {
                                let keep = if prefix { i < cut } else { rng.chance(1, 2) };
                                let a = i * SECTOR;
                                let e = ((i + 1) * SECTOR).min(data.len());
                                if keep {
                                    apply(&mut b, &Pend::Write(*off + a as u64, data[a..e].to_vec()));
                                } else if s.capture_garbage && rng.chance(1, 3) {
                                    let mut g = vec![0u8; e - a];
                                    rng.fill(&mut g);
                                    apply(&mut b, &Pend::Write(*off + a as u64, g));
                                }
                            }
                            torn += 1;
                        } else {
                            dropped += 1;
                        }
                    }
                }
            }
            if kept + dropped + torn > 0 {
                detail.push_str(&format!("{name}:kept{kept}/dropped{dropped}/torn{torn} "));
            }
            files.push((name.clone(), b));
        }
        // entries made outside SQLite's file I/O were never synced by anyone we can see: each may
        // or may not have reached the disk
        if strat != 0 {
            for st in &strays {
                if rng.chance(1, 2) {
                    detail.push_str(&format!("{}:stray_survived ", st.0));
                    files.push(st.clone());
                }
            }
        }
        s.images.push(Image {
            point,
            stamp,
            req: s.cur_req,
            kind: "power_loss",
            at_call: at_call.to_string(),
            files,
            detail,
        });
    }
    s.crash_rng = Some(rng);
}

/// Called before a mutating call executes. Returns an injected error code, if any.
fn pre_call(kind: CallKind, name: &'static str, what: &str) -> Option<c_int> {
    if SCHED_POINTS.load(std::sync::atomic::Ordering::SeqCst) && matches!(kind, CallKind::Lock | CallKind::ShmLock | CallKind::Open | CallKind::Sync | CallKind::Delete) {
        sched::point(Site::Vfs);
    }
    pre_call_inner(kind, name, what)
}

fn pre_call_inner(kind: CallKind, name: &'static str, what: &str) -> Option<c_int> {
    with(|s| {
        s.total_calls += 1;
        *s.calls.entry(name).or_insert(0) += 1;
        let mutating = matches!(kind, CallKind::Write | CallKind::Truncate | CallKind::Sync | CallKind::Delete);
        if mutating {
            if s.capture && !s.capture_paused {
                capture(s, &format!("{name} {what}"));
            }
            s.mut_calls += 1;
        }
        let n = s.kind_count.entry(kind as u8).or_insert(0);
        let idx = *n;
        *n += 1;
        if let Some(f) = s.fault {
            if f.kind.applies_to() == kind && idx >= f.nth && idx <= f.nth + f.sticky {
                s.fault_fired.push(format!("{:?}@{}#{} {}", f.kind, name, idx, what));
                return Some(f.kind.code());
            }
        }
        None
    })
}

// ---------------------------------------------------------------------------------------------
// the shim

#[repr(C)]
struct ShimFile {
    base: ffi::sqlite3_file,
    id: u64,
    real: *mut ffi::sqlite3_file,
}

struct Real(*mut ffi::sqlite3_vfs);
unsafe impl Send for Real {}
unsafe impl Sync for Real {}
static REAL: std::sync::OnceLock<Real> = std::sync::OnceLock::new();

/// The real VFS a shim instance sits on (one shim per built-in unix VFS, see `install`).
unsafe fn real_of(v: *mut ffi::sqlite3_vfs) -> *mut ffi::sqlite3_vfs {
    let r = (*v).pAppData as *mut ffi::sqlite3_vfs;
    if r.is_null() {
        REAL.get().expect("vfs installed").0
    } else {
        r
    }
}

unsafe fn rf(f: *mut ffi::sqlite3_file) -> *mut ffi::sqlite3_file {
    (*(f as *mut ShimFile)).real
}

unsafe fn fid(f: *mut ffi::sqlite3_file) -> u64 {
    (*(f as *mut ShimFile)).id
}

fn file_name_of(id: u64) -> (Option<PathBuf>, c_int) {
    with(|s| s.files.get(&id).map(|(p, f)| (Some(p.clone()), *f)).unwrap_or((None, 0)))
}

fn short(p: &Option<PathBuf>) -> String {
    p.as_ref()
        .and_then(|p| p.file_name())
        .map(|n| {
            let n = n.to_string_lossy();
            if n.ends_with("-wal") {
                "wal".to_string()
            } else if n.ends_with("-shm") {
                "shm".to_string()
            } else if n.ends_with("-journal") {
                "journal".to_string()
            } else {
                "db".to_string()
            }
        })
        .unwrap_or_else(|| "tmp".into())
}

unsafe extern "C" fn x_close(f: *mut ffi::sqlite3_file) -> c_int {
    let r = rf(f);
    let rc = ((*(*r).pMethods).xClose.unwrap())(r);
    let id = fid(f);
    with(|s| {
        s.files.remove(&id);
    });
    rc
}

unsafe extern "C" fn x_read(f: *mut ffi::sqlite3_file, buf: *mut c_void, amt: c_int, ofst: i64) -> c_int {
    let (p, _) = file_name_of(fid(f));
    if let Some(code) = pre_call(CallKind::Read, "xRead", &format!("{} {}+{}", short(&p), ofst, amt)) {
        if code == ffi::SQLITE_IOERR_SHORT_READ {
            std::ptr::write_bytes(buf as *mut u8, 0, amt as usize);
        }
        return code;
    }
    let r = rf(f);
    ((*(*r).pMethods).xRead.unwrap())(r, buf, amt, ofst)
}

unsafe extern "C" fn x_write(f: *mut ffi::sqlite3_file, buf: *const c_void, amt: c_int, ofst: i64) -> c_int {
    let (p, _) = file_name_of(fid(f));
    let data = std::slice::from_raw_parts(buf as *const u8, amt as usize);
    let kind = short(&p);
    if let Some(code) = pre_call(CallKind::Write, "xWrite", &format!("{} {}+{}", kind, ofst, amt)) {
        return code;
    }
    let r = rf(f);
    let rc = ((*(*r).pMethods).xWrite.unwrap())(r, buf, amt, ofst);
    if rc == ffi::SQLITE_OK {
        with(|s| {
            s.digest.add_str(&kind);
            s.digest.add_u64(ofst as u64);
            s.digest.add_u64(amt as u64);
            s.digest.add_u64(crate::rng::fnv(data));
            if let Some(p) = &p {
                if let Some(n) = tracked_name(s, p) {
                    let sh = s.shadow.entry(n).or_default();
                    sh.exists_now = true;
                    sh.pending.push(Pend::Write(ofst as u64, data.to_vec()));
                }
            }
        });
    }
    rc
}

unsafe extern "C" fn x_truncate(f: *mut ffi::sqlite3_file, size: i64) -> c_int {
    let (p, _) = file_name_of(fid(f));
    if let Some(code) = pre_call(CallKind::Truncate, "xTruncate", &format!("{} {}", short(&p), size)) {
        return code;
    }
    let r = rf(f);
    let rc = ((*(*r).pMethods).xTruncate.unwrap())(r, size);
    if rc == ffi::SQLITE_OK {
        with(|s| {
            s.digest.add_str("trunc");
            s.digest.add_u64(size as u64);
            if let Some(p) = &p {
                if let Some(n) = tracked_name(s, p) {
                    let sh = s.shadow.entry(n).or_default();
                    sh.pending.push(Pend::Truncate(size as u64));
                }
            }
        });
    }
    rc
}

unsafe extern "C" fn x_sync(f: *mut ffi::sqlite3_file, flags: c_int) -> c_int {
    let (p, _) = file_name_of(fid(f));
    if let Some(code) = pre_call(CallKind::Sync, "xSync", &short(&p)) {
        return code;
    }
    let r = rf(f);
    let rc = ((*(*r).pMethods).xSync.unwrap())(r, flags);
    if rc == ffi::SQLITE_OK {
        with(|s| {
            s.digest.add_str("sync");
            if let Some(p) = &p {
                if let Some(n) = tracked_name(s, p) {
                    let sh = s.shadow.entry(n).or_default();
                    let mut b = sh.durable.take().unwrap_or_default();
                    for pd in sh.pending.drain(..) {
                        apply(&mut b, &pd);
                    }
                    sh.durable = Some(b);
                    sh.exists_now = true;
                }
            }
        });
    }
    rc
}

unsafe extern "C" fn x_file_size(f: *mut ffi::sqlite3_file, out: *mut i64) -> c_int {
    if let Some(code) = pre_call(CallKind::FileSize, "xFileSize", "") {
        return code;
    }
    let r = rf(f);
    ((*(*r).pMethods).xFileSize.unwrap())(r, out)
}

unsafe extern "C" fn x_lock(f: *mut ffi::sqlite3_file, l: c_int) -> c_int {
    if let Some(code) = pre_call(CallKind::Lock, "xLock", &l.to_string()) {
        return code;
    }
    let r = rf(f);
    ((*(*r).pMethods).xLock.unwrap())(r, l)
}

unsafe extern "C" fn x_unlock(f: *mut ffi::sqlite3_file, l: c_int) -> c_int {
    let r = rf(f);
    ((*(*r).pMethods).xUnlock.unwrap())(r, l)
}

unsafe extern "C" fn x_check_reserved(f: *mut ffi::sqlite3_file, out: *mut c_int) -> c_int {
    let r = rf(f);
    ((*(*r).pMethods).xCheckReservedLock.unwrap())(r, out)
}

unsafe extern "C" fn x_file_control(f: *mut ffi::sqlite3_file, op: c_int, arg: *mut c_void) -> c_int {
    let r = rf(f);
    ((*(*r).pMethods).xFileControl.unwrap())(r, op, arg)
}

unsafe extern "C" fn x_sector_size(f: *mut ffi::sqlite3_file) -> c_int {
    let r = rf(f);
    ((*(*r).pMethods).xSectorSize.unwrap())(r)
}

unsafe extern "C" fn x_device_chars(f: *mut ffi::sqlite3_file) -> c_int {
    let r = rf(f);
    ((*(*r).pMethods).xDeviceCharacteristics.unwrap())(r)
}

unsafe extern "C" fn x_shm_map(f: *mut ffi::sqlite3_file, pg: c_int, pgsz: c_int, ext: c_int, out: *mut *mut c_void) -> c_int {
    if let Some(code) = pre_call(CallKind::ShmMap, "xShmMap", &pg.to_string()) {
        *out = std::ptr::null_mut();
        return code;
    }
    let r = rf(f);
    ((*(*r).pMethods).xShmMap.unwrap())(r, pg, pgsz, ext, out)
}

unsafe extern "C" fn x_shm_lock(f: *mut ffi::sqlite3_file, off: c_int, n: c_int, flags: c_int) -> c_int {
    // only acquisitions can fail
    if flags & ffi::SQLITE_SHM_LOCK != 0 {
        if let Some(code) = pre_call(CallKind::ShmLock, "xShmLock", &format!("{off}+{n}/{flags}")) {
            return code;
        }
    }
    let r = rf(f);
    ((*(*r).pMethods).xShmLock.unwrap())(r, off, n, flags)
}

unsafe extern "C" fn x_shm_barrier(f: *mut ffi::sqlite3_file) {
    let r = rf(f);
    ((*(*r).pMethods).xShmBarrier.unwrap())(r)
}

unsafe extern "C" fn x_shm_unmap(f: *mut ffi::sqlite3_file, del: c_int) -> c_int {
    let r = rf(f);
    ((*(*r).pMethods).xShmUnmap.unwrap())(r, del)
}

static METHODS: ffi::sqlite3_io_methods = ffi::sqlite3_io_methods {
    iVersion: 2,
    xClose: Some(x_close),
    xRead: Some(x_read),
    xWrite: Some(x_write),
    xTruncate: Some(x_truncate),
    xSync: Some(x_sync),
    xFileSize: Some(x_file_size),
    xLock: Some(x_lock),
    xUnlock: Some(x_unlock),
    xCheckReservedLock: Some(x_check_reserved),
    xFileControl: Some(x_file_control),
    xSectorSize: Some(x_sector_size),
    xDeviceCharacteristics: Some(x_device_chars),
    xShmMap: Some(x_shm_map),
    xShmLock: Some(x_shm_lock),
    xShmBarrier: Some(x_shm_barrier),
    xShmUnmap: Some(x_shm_unmap),
    xFetch: None,
    xUnfetch: None,
};

/// For real files without shared-memory support (the dot-file locking VFS): SQLite must see that,
/// or it would try WAL mode through methods that are not there.
static METHODS_V1: ffi::sqlite3_io_methods = ffi::sqlite3_io_methods {
    iVersion: 1,
    xClose: Some(x_close),
    xRead: Some(x_read),
    xWrite: Some(x_write),
    xTruncate: Some(x_truncate),
    xSync: Some(x_sync),
    xFileSize: Some(x_file_size),
    xLock: Some(x_lock),
    xUnlock: Some(x_unlock),
    xCheckReservedLock: Some(x_check_reserved),
    xFileControl: Some(x_file_control),
    xSectorSize: Some(x_sector_size),
    xDeviceCharacteristics: Some(x_device_chars),
    xShmMap: None,
    xShmLock: None,
    xShmBarrier: None,
    xShmUnmap: None,
    xFetch: None,
    xUnfetch: None,
};

unsafe fn cpath(z: *const c_char) -> Option<PathBuf> {
    if z.is_null() {
        None
    } else {
        Some(PathBuf::from(CStr::from_ptr(z).to_string_lossy().to_string()))
    }
}

unsafe extern "C" fn v_open(v: *mut ffi::sqlite3_vfs, name: *const c_char, f: *mut ffi::sqlite3_file, flags: c_int, out: *mut c_int) -> c_int {
    let sf = f as *mut ShimFile;
    (*sf).base.pMethods = std::ptr::null();
    let p = cpath(name);
    if let Some(code) = pre_call(CallKind::Open, "xOpen", &short(&p)) {
        return code;
    }
    let realp = (f as *mut u8).add(std::mem::size_of::<ShimFile>()) as *mut ffi::sqlite3_file;
    (*sf).real = realp;
    let rv = real_of(v);
    let rc = ((*rv).xOpen.unwrap())(rv, name, realp, flags, out);
    if rc == ffi::SQLITE_OK {
        let id = with(|s| {
            s.next_id += 1;
            let id = s.next_id;
            if let Some(p) = &p {
                s.files.insert(id, (p.clone(), flags));
                if let Some(n) = tracked_name(s, p) {
                    let existed = s.shadow.get(&n).map(|sh| sh.exists_now).unwrap_or(false);
                    if !existed && (flags & ffi::SQLITE_OPEN_CREATE) != 0 {
                        let sh = s.shadow.entry(n).or_default();
                        sh.exists_now = true;
                        sh.volatile_delete = false;
                        if sh.durable.is_some() {
                            // re-created after a delete: the old durable content is gone once the
                            // new file is synced; model it as a truncate to 0 pending
                            sh.pending.clear();
                            sh.pending.push(Pend::Truncate(0));
                        }
                    }
                }
            }
            id
        });
        (*sf).id = id;
        if !(*realp).pMethods.is_null() {
            let rm = (*realp).pMethods;
            (*sf).base.pMethods = if (*rm).iVersion >= 2 && (*rm).xShmMap.is_some() { &raw const METHODS } else { &raw const METHODS_V1 };
        }
    }
    rc
}

unsafe extern "C" fn v_delete(v: *mut ffi::sqlite3_vfs, name: *const c_char, sync_dir: c_int) -> c_int {
    let p = cpath(name);
    if let Some(code) = pre_call(CallKind::Delete, "xDelete", &short(&p)) {
        return code;
    }
    let rv = real_of(v);
    let rc = ((*rv).xDelete.unwrap())(rv, name, sync_dir);
    if rc == ffi::SQLITE_OK {
        with(|s| {
            s.digest.add_str("delete");
            if let Some(p) = &p {
                if let Some(n) = tracked_name(s, p) {
                    if let Some(sh) = s.shadow.get_mut(&n) {
                        sh.exists_now = false;
                        sh.pending.clear();
                        if sync_dir != 0 {
                            sh.durable = None;
                            sh.volatile_delete = false;
                        } else {
                            sh.volatile_delete = sh.durable.is_some();
                        }
                    }
                }
            }
        });
    }
    rc
}

unsafe extern "C" fn v_access(v: *mut ffi::sqlite3_vfs, name: *const c_char, flags: c_int, out: *mut c_int) -> c_int {
    if let Some(code) = pre_call(CallKind::Access, "xAccess", "") {
        return code;
    }
    let rv = real_of(v);
    ((*rv).xAccess.unwrap())(rv, name, flags, out)
}

unsafe extern "C" fn v_full_pathname(v: *mut ffi::sqlite3_vfs, name: *const c_char, n: c_int, out: *mut c_char) -> c_int {
    let rv = real_of(v);
    ((*rv).xFullPathname.unwrap())(rv, name, n, out)
}

unsafe extern "C" fn v_randomness(_v: *mut ffi::sqlite3_vfs, n: c_int, out: *mut c_char) -> c_int {
    let buf = std::slice::from_raw_parts_mut(out as *mut u8, n as usize);
    with(|s| {
        let mut x = s.rand_state;
        for ch in buf.chunks_mut(8) {
            let v = crate::rng::splitmix(&mut x).to_le_bytes();
            ch.copy_from_slice(&v[..ch.len()]);
        }
        s.rand_state = x;
    });
    n
}

unsafe extern "C" fn v_sleep(_v: *mut ffi::sqlite3_vfs, us: c_int) -> c_int {
    // busy handler back-off: costs simulated time only, and is a scheduling point
    sched::sleep_us(us as i64, Site::BusySleep);
    foreign_release_due();
    us
}

// ---------------------------------------------------------------------------------------------
// environment fault: a foreign writer (another process, an admin shell) holds the write lock of
// the database for a while

struct ForeignHold {
    con: rusqlite::Connection,
    release_at: i64,
}

static FOREIGN: Mutex<Option<ForeignHold>> = Mutex::new(None);

/// A foreign connection takes the write lock now and keeps it for `hold_us` of simulated time.
pub fn foreign_hold(db: &Path, hold_us: i64) -> anyhow::Result<()> {
    foreign_release_now();
    let con = rusqlite::Connection::open(db)?;
    con.execute_batch("BEGIN IMMEDIATE")?;
    *FOREIGN.lock().unwrap() = Some(ForeignHold { con, release_at: sched::now_us() + hold_us });
    Ok(())
}

/// Remaining simulated µs the foreign writer will hold the lock (0 = not held).
pub fn foreign_remaining() -> i64 {
    FOREIGN.lock().unwrap().as_ref().map(|h| (h.release_at - sched::now_us()).max(1)).unwrap_or(0)
}

fn foreign_release_due() {
    let due = matches!(FOREIGN.lock().unwrap().as_ref(), Some(h) if sched::now_us() >= h.release_at);
    if due {
        foreign_release_now();
    }
}

pub fn foreign_release_now() {
    let h = FOREIGN.lock().unwrap().take();
    if let Some(h) = h {
        let _ = h.con.execute_batch("ROLLBACK");
        drop(h);
    }
}

// environment fault: a foreign READER (a backup job, a monitoring query, an admin shell) keeps a read
// transaction open for a while. In WAL mode that blocks nobody, but no checkpoint can complete and the
// write-ahead log keeps growing until the reader goes away.
static FOREIGN_READ: Mutex<Option<ForeignHold>> = Mutex::new(None);

pub fn foreign_read_hold(db: &Path, hold_us: i64) -> anyhow::Result<()> {
    foreign_read_release_now();
    let con = rusqlite::Connection::open(db)?;
    con.execute_batch("BEGIN")?;
    let _n: i64 = con.query_row("SELECT count(*) FROM sqlite_master", [], |r| r.get(0))?;
    *FOREIGN_READ.lock().unwrap() = Some(ForeignHold { con, release_at: sched::now_us() + hold_us });
    Ok(())
}

pub fn foreign_read_release_due() {
    let due = matches!(FOREIGN_READ.lock().unwrap().as_ref(), Some(h) if sched::now_us() >= h.release_at);
    if due {
        foreign_read_release_now();
    }
}

pub fn foreign_read_release_now() {
    let h = FOREIGN_READ.lock().unwrap().take();
    if let Some(h) = h {
        let _ = h.con.execute_batch("ROLLBACK");
        drop(h);
    }
}

fn julian_ms() -> i64 {
    let unix_ms = sched::EPOCH_S as i128 * 1000 + (sched::now_us() as i128).div_euclid(1000);
    (unix_ms + 210_866_760_000_000i128) as i64
}

unsafe extern "C" fn v_current_time(_v: *mut ffi::sqlite3_vfs, out: *mut f64) -> c_int {
    *out = julian_ms() as f64 / 86_400_000.0;
    0
}

unsafe extern "C" fn v_current_time64(_v: *mut ffi::sqlite3_vfs, out: *mut i64) -> c_int {
    *out = julian_ms();
    0
}

unsafe extern "C" fn v_get_last_error(v: *mut ffi::sqlite3_vfs, n: c_int, out: *mut c_char) -> c_int {
    let rv = real_of(v);
    match (*rv).xGetLastError {
        Some(f) => f(rv, n, out),
        None => 0,
    }
}

unsafe fn make_shim(rv: *mut ffi::sqlite3_vfs, name: *const c_char) -> *mut ffi::sqlite3_vfs {
    let shim = Box::new(ffi::sqlite3_vfs {
        iVersion: 2,
        szOsFile: (std::mem::size_of::<ShimFile>() as c_int) + (*rv).szOsFile,
        mxPathname: (*rv).mxPathname,
        pNext: std::ptr::null_mut(),
        zName: name,
        pAppData: rv as *mut c_void,
        xOpen: Some(v_open),
        xDelete: Some(v_delete),
        xAccess: Some(v_access),
        xFullPathname: Some(v_full_pathname),
        xDlOpen: (*rv).xDlOpen,
        xDlError: (*rv).xDlError,
        xDlSym: (*rv).xDlSym,
        xDlClose: (*rv).xDlClose,
        xRandomness: Some(v_randomness),
        xSleep: Some(v_sleep),
        xCurrentTime: Some(v_current_time),
        xGetLastError: Some(v_get_last_error),
        xCurrentTimeInt64: Some(v_current_time64),
        xSetSystemCall: None,
        xGetSystemCall: None,
        xNextSystemCall: None,
    });
    Box::leak(shim)
}

/// Register the shim as the default VFS (once per process). Every built-in unix VFS
/// (`unix`, `unix-dotfile`, `unix-excl`, `unix-none`) is also replaced, under its own name, by a
/// shim instance over the original, so that code under test that names a VFS explicitly still does
/// its I/O, locking and sleeping through the simulator.
pub fn install() {
    static ONCE: std::sync::Once = std::sync::Once::new();
    ONCE.call_once(|| unsafe {
        ffi::sqlite3_initialize();
        let rc = ffi::sqlite3_auto_extension(Some(auto_ext));
        assert_eq!(rc, ffi::SQLITE_OK, "auto extension");
        let rv = ffi::sqlite3_vfs_find(c"unix".as_ptr());
        assert!(!rv.is_null(), "unix vfs");
        let _ = REAL.set(Real(rv));
        let p = make_shim(rv, c"tcss-sim".as_ptr());
        let rc = ffi::sqlite3_vfs_register(p, 1);
        assert_eq!(rc, ffi::SQLITE_OK);
        for name in [c"unix", c"unix-dotfile", c"unix-excl", c"unix-none"] {
            let orig = ffi::sqlite3_vfs_find(name.as_ptr());
            if orig.is_null() || orig == p {
                continue;
            }
            if ffi::sqlite3_vfs_unregister(orig) != ffi::SQLITE_OK {
                continue;
            }
            let sh = make_shim(orig, name.as_ptr());
            if ffi::sqlite3_vfs_register(sh, 0) != ffi::SQLITE_OK {
                // put the original back rather than lose the name
                ffi::sqlite3_vfs_register(orig, 0);
            }
        }
        // the default must still be ours
        let d = ffi::sqlite3_vfs_find(std::ptr::null());
        assert!(d == p, "shim is the default vfs");
        with(|s| s.installed = true);
    });
}

/// Write an image's files into a fresh directory.
pub fn materialise(img: &Image, dir: &Path) -> std::io::Result<()> {
    std::fs::create_dir_all(dir)?;
    for (name, bytes) in &img.files {
        if let Some(d) = name.strip_suffix('/') {
            std::fs::create_dir_all(dir.join(d))?;
            continue;
        }
        std::fs::write(dir.join(name), bytes)?;
    }
    Ok(())
}
