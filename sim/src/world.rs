//! The simulated world: clock and id hooks, the wrapper storage (existing `Storage` seam), the
//! backends and server instances.

use crate::model::{Cfg, Id, Req, Resp, Urg};
use crate::sched::{self, Site};
use serde::{Deserialize, Serialize};
use std::cell::Cell;
use std::collections::HashSet;
use std::path::{Path, PathBuf};
use std::sync::atomic::{AtomicU64, Ordering};
use std::sync::{Arc, Mutex};
use taskchampion_sync_server::WebServer;
use taskchampion_sync_server_core::{
    AddVersionResult, Client, GetVersionResult, InMemoryStorage, Server, ServerConfig, ServerError,
    Snapshot, SnapshotUrgency, Storage, StorageTxn, Version,
};
use taskchampion_sync_server_storage_sqlite::SqliteStorage;
use uuid::Uuid;

// ---------------------------------------------------------------------------------------------
// hooks: clock, ids, lock contention

static ID_SEED: AtomicU64 = AtomicU64::new(0);
static ID_CTR: AtomicU64 = AtomicU64::new(0);

thread_local! {
    /// per-instance clock skew (µs) of the server this thread belongs to
    pub static SKEW_US: Cell<i64> = const { Cell::new(0) };
}

pub fn dt_from_us(us: i64) -> chrono::DateTime<chrono::Utc> {
    use chrono::TimeZone;
    let total = sched::EPOCH_S as i128 * 1_000_000 + us as i128;
    let secs = total.div_euclid(1_000_000) as i64;
    let micros = total.rem_euclid(1_000_000) as u32;
    chrono::Utc
        .timestamp_opt(secs, micros * 1000)
        .single()
        .expect("simulated time in chrono range")
}

pub fn us_from_dt(dt: &chrono::DateTime<chrono::Utc>) -> i64 {
    let total = dt.timestamp() as i128 * 1_000_000 + dt.timestamp_subsec_micros() as i128;
    (total - sched::EPOCH_S as i128 * 1_000_000) as i64
}

fn hook_now() -> chrono::DateTime<chrono::Utc> {
    dt_from_us(sched::now_us() + SKEW_US.with(|s| s.get()))
}

/// Swarm knob: in some runs every id (client ids, quoted ids, issued version ids) consists of
/// decimal digits only and shares a long prefix with its siblings — the input class that trips
/// numeric type affinity / lossy numeric comparison of id columns.
static NUMERIC_IDS: std::sync::atomic::AtomicBool = std::sync::atomic::AtomicBool::new(false);

pub fn numeric_ids() -> bool {
    NUMERIC_IDS.load(Ordering::SeqCst)
}

fn numeric_id(seed: u64, n: u64) -> Uuid {
    // 32 decimal digits: a seed-derived prefix, the counter in the last 8; version nibble 4, variant nibble 8
    let mut x = crate::rng::mix(&[seed, 0xD161]);
    let a = crate::rng::splitmix(&mut x) % 1_000_000_000_000;
    let b = crate::rng::splitmix(&mut x) % 1_000_000_000_000;
    let digits = format!("{:012}{:012}", a, b);
    let mut d: Vec<u8> = digits.as_bytes()[..24].to_vec();
    d.extend_from_slice(format!("{:08}", n % 100_000_000).as_bytes());
    d[12] = b'4';
    d[16] = b'8';
    Uuid::parse_str(std::str::from_utf8(&d).unwrap()).expect("digit uuid")
}

pub fn make_id(seed: u64, n: u64) -> Uuid {
    if numeric_ids() {
        return numeric_id(seed, n);
    }
    let mut x = crate::rng::mix(&[seed, n, 0x1D]);
    let a = crate::rng::splitmix(&mut x);
    let b = crate::rng::splitmix(&mut x);
    let mut bytes = [0u8; 16];
    bytes[..8].copy_from_slice(&a.to_le_bytes());
    bytes[8..].copy_from_slice(&b.to_le_bytes());
    uuid::Builder::from_random_bytes(bytes).into_uuid()
}

fn hook_new_v4() -> Uuid {
    let n = ID_CTR.fetch_add(1, Ordering::SeqCst);
    make_id(ID_SEED.load(Ordering::SeqCst), n)
}

thread_local! {
    static BACKOFF_US: Cell<i64> = const { Cell::new(1000) };
}

fn hook_contended() {
    // exponential back-off in simulated time, so a long stall of the lock holder costs few steps
    let d = BACKOFF_US.with(|b| {
        let d = b.get();
        b.set((d * 2).min(1_000_000));
        d
    });
    sched::sleep_us(d, Site::Contended);
}

/// Install the hooks and reset clock and id source for a run.
pub fn begin_run(seed: u64, start_us: i64) {
    begin_run_styled(seed, start_us, seed);
}

pub fn set_numeric_ids(on: bool) {
    NUMERIC_IDS.store(on, Ordering::SeqCst);
}

/// Like `begin_run`, with the id style (plain / digit-only) taken from another seed, so that a
/// second world of the same plan names clients the same way.
pub fn begin_run_styled(seed: u64, start_us: i64, style_seed: u64) {
    taskchampion_sync_server_core::verif::install(Some(taskchampion_sync_server_core::verif::Hooks {
        now: hook_now,
        new_v4: hook_new_v4,
        lock_contended: hook_contended,
    }));
    ID_SEED.store(crate::rng::mix(&[seed, 0x1D5EED]), Ordering::SeqCst);
    NUMERIC_IDS.store(crate::rng::mix(&[style_seed, 0x4E0D]) % 9 == 0, Ordering::SeqCst);
    ID_CTR.store(0, Ordering::SeqCst);
    sched::set_now_us(start_us);
    SKEW_US.with(|s| s.set(0));
    crate::vfs::begin_run(seed, None);
}

thread_local! {
    static RAW_MODE: Cell<u8> = const { Cell::new(0) };
}

/// 0: a share of the SQLite worlds serve through servers that own the concrete storage (no wrapper
/// in between: whatever methods the storage trait has or gains reach the real backend); 1: never
/// (engines that inject faults at storage calls need the wrapper).
pub fn set_raw_mode(m: u8) {
    RAW_MODE.with(|c| c.set(m));
}

pub fn raw_for(seed: u64) -> bool {
    RAW_MODE.with(|c| c.get()) == 0 && crate::rng::mix(&[seed, 0x4A57]) % 4 == 0
}

pub fn set_id_ctr(n: u64) {
    ID_CTR.store(n, Ordering::SeqCst);
}

pub fn ids_issued() -> u64 {
    ID_CTR.load(Ordering::SeqCst)
}

// ---------------------------------------------------------------------------------------------
// wrapper storage

#[derive(Clone, Copy, PartialEq, Eq, Debug, Serialize, Deserialize, PartialOrd, Ord)]
pub enum Call {
    Txn,
    GetClient,
    NewClient,
    SetSnapshot,
    GetSnapshotData,
    GetVersionByParent,
    GetVersion,
    AddVersion,
    Commit,
    Drop,
}

impl Call {
    pub fn is_write(self) -> bool {
        matches!(self, Call::NewClient | Call::SetSnapshot | Call::AddVersion)
    }
}

#[derive(Clone, Copy, Debug, PartialEq, Eq, Serialize, Deserialize)]
pub struct StorageFault {
    /// index of the storage call within the current request (Drop is not counted)
    pub index: u32,
    /// false: fail before the inner call; true: make the inner call, then report failure
    pub after: bool,
}

#[derive(Default)]
pub struct CtlInner {
    pub log: Vec<(Call, bool)>,
    pub index: u32,
    pub faults: Vec<StorageFault>,
    pub fired: Vec<(u32, Call, bool)>,
}

/// Shared control block of a wrapper storage: access log and fault plan.
#[derive(Default)]
pub struct Ctl(pub Mutex<CtlInner>);

impl Ctl {
    pub fn begin_request(&self, faults: Vec<StorageFault>) {
        let mut g = self.0.lock().unwrap();
        g.log.clear();
        g.index = 0;
        g.faults = faults;
        g.fired.clear();
    }
    pub fn take_log(&self) -> Vec<(Call, bool)> {
        std::mem::take(&mut self.0.lock().unwrap().log)
    }
    pub fn fired(&self) -> Vec<(u32, Call, bool)> {
        self.0.lock().unwrap().fired.clone()
    }
    /// returns Some(after) if this call is to fail
    fn enter(&self, call: Call) -> Option<bool> {
        let mut g = self.0.lock().unwrap();
        let idx = g.index;
        g.index += 1;
        let f = g.faults.iter().find(|f| f.index == idx).copied();
        if let Some(f) = f {
            g.fired.push((idx, call, f.after));
            Some(f.after)
        } else {
            None
        }
    }
    fn record(&self, call: Call, ok: bool) {
        self.0.lock().unwrap().log.push((call, ok));
    }
}

pub struct SimStorage {
    pub inner: Arc<dyn Storage>,
    pub ctl: Arc<Ctl>,
}

struct SimTxn<'a> {
    inner: Option<Box<dyn StorageTxn + 'a>>,
    ctl: Arc<Ctl>,
}

fn injected(call: Call, after: bool) -> anyhow::Error {
    anyhow::anyhow!(
        "injected storage fault at {:?} ({})",
        call,
        if after { "after effect" } else { "before effect" }
    )
}

impl Storage for SimStorage {
    fn txn(&self, client_id: Uuid) -> anyhow::Result<Box<dyn StorageTxn + '_>> {
        sched::point(Site::Txn);
        let fault = self.ctl.enter(Call::Txn);
        if fault == Some(false) {
            self.ctl.record(Call::Txn, false);
            return Err(injected(Call::Txn, false));
        }
        let r = self.inner.txn(client_id);
        match r {
            Ok(t) => {
                BACKOFF_US.with(|b| b.set(1000));
                if fault == Some(true) {
                    // the transaction began, but the caller is told it failed
                    drop(t);
                    self.ctl.record(Call::Txn, false);
                    return Err(injected(Call::Txn, true));
                }
                self.ctl.record(Call::Txn, true);
                sched::point(Site::AfterCall);
                Ok(Box::new(SimTxn {
                    inner: Some(t),
                    ctl: self.ctl.clone(),
                }))
            }
            Err(e) => {
                self.ctl.record(Call::Txn, false);
                Err(e)
            }
        }
    }
}

impl SimTxn<'_> {
    fn run<T>(
        &mut self,
        call: Call,
        f: impl FnOnce(&mut dyn StorageTxn) -> anyhow::Result<T>,
    ) -> anyhow::Result<T> {
        sched::point(Site::Call);
        let fault = self.ctl.enter(call);
        if fault == Some(false) {
            self.ctl.record(call, false);
            return Err(injected(call, false));
        }
        let r = f(self.inner.as_mut().unwrap().as_mut());
        let r = match (r, fault) {
            (Ok(_), Some(true)) => Err(injected(call, true)),
            (r, _) => r,
        };
        self.ctl.record(call, r.is_ok());
        sched::point(Site::AfterCall);
        r
    }
}

impl StorageTxn for SimTxn<'_> {
    fn get_client(&mut self) -> anyhow::Result<Option<Client>> {
        self.run(Call::GetClient, |t| t.get_client())
    }
    fn new_client(&mut self, latest_version_id: Uuid) -> anyhow::Result<()> {
        self.run(Call::NewClient, |t| t.new_client(latest_version_id))
    }
    fn set_snapshot(&mut self, snapshot: Snapshot, data: Vec<u8>) -> anyhow::Result<()> {
        self.run(Call::SetSnapshot, |t| t.set_snapshot(snapshot, data))
    }
    fn get_snapshot_data(&mut self, version_id: Uuid) -> anyhow::Result<Option<Vec<u8>>> {
        self.run(Call::GetSnapshotData, |t| t.get_snapshot_data(version_id))
    }
    fn get_version_by_parent(&mut self, parent_version_id: Uuid) -> anyhow::Result<Option<Version>> {
        self.run(Call::GetVersionByParent, |t| t.get_version_by_parent(parent_version_id))
    }
    fn get_version(&mut self, version_id: Uuid) -> anyhow::Result<Option<Version>> {
        self.run(Call::GetVersion, |t| t.get_version(version_id))
    }
    fn add_version(&mut self, version_id: Uuid, parent_version_id: Uuid, history_segment: Vec<u8>) -> anyhow::Result<()> {
        self.run(Call::AddVersion, |t| t.add_version(version_id, parent_version_id, history_segment))
    }
    fn commit(&mut self) -> anyhow::Result<()> {
        self.run(Call::Commit, |t| t.commit())
    }
}

impl Drop for SimTxn<'_> {
    fn drop(&mut self) {
        sched::point(Site::DropTxn);
        self.ctl.record(Call::Drop, true);
        drop(self.inner.take());
    }
}

// ---------------------------------------------------------------------------------------------
// backends

#[derive(Clone, Copy, PartialEq, Eq, Debug, Serialize, Deserialize, PartialOrd, Ord)]
pub enum Backend {
    Memory,
    Sqlite,
}

/// Scratch directory root: $VERIF_SCRATCH, else /dev/shm, else the system temp dir.
pub fn scratch_root() -> PathBuf {
    if let Ok(p) = std::env::var("VERIF_SCRATCH") {
        return PathBuf::from(p);
    }
    let shm = Path::new("/dev/shm");
    if shm.is_dir() {
        shm.join(format!("tcss-sim-{}", std::process::id()))
    } else {
        std::env::temp_dir().join(format!("tcss-sim-{}", std::process::id()))
    }
}

static DIR_CTR: AtomicU64 = AtomicU64::new(0);

pub fn fresh_dir(label: &str) -> PathBuf {
    let n = DIR_CTR.fetch_add(1, Ordering::SeqCst);
    // swarm knob (a function of the run's seed only): data directories whose names contain what a URI
    // or a shell would treat specially. A path is a path: the server must use the directory it was given.
    let odd = match crate::rng::mix(&[ID_SEED.load(Ordering::SeqCst), 0xD1A]) % 12 {
        0 => " with space",
        1 => "#frag",
        2 => "?mode=ro",
        3 => "%41%2f",
        4 => "-ünï-目録",
        _ => "",
    };
    let d = scratch_root().join(format!("{label}-{n}{odd}"));
    let _ = std::fs::remove_dir_all(&d);
    std::fs::create_dir_all(&d).expect("create scratch dir");
    d
}

pub fn cleanup_scratch() {
    let _ = std::fs::remove_dir_all(scratch_root());
}

pub const DB_FILE: &str = "taskchampion-sync-server.sqlite3";

/// Pre-create the database file with a given page size (a legitimate deployment state).
pub fn precreate_db(dir: &Path, page_size: u32) -> anyhow::Result<()> {
    let con = rusqlite::Connection::open(dir.join(DB_FILE))?;
    con.execute_batch(&format!("PRAGMA page_size={page_size}; VACUUM;"))?;
    // force the header to be written with this page size
    con.execute_batch("CREATE TABLE IF NOT EXISTS _verif_pad (x); DROP TABLE _verif_pad;")?;
    Ok(())
}

pub struct Store {
    pub backend: Backend,
    pub raw: Arc<dyn Storage>,
    pub dir: Option<PathBuf>,
    pub owns_dir: bool,
}

impl Store {
    pub fn new(backend: Backend, page_size: Option<u32>) -> anyhow::Result<Store> {
        match backend {
            Backend::Memory => Ok(Store {
                backend,
                raw: Arc::new(InMemoryStorage::new()),
                dir: None,
                owns_dir: false,
            }),
            Backend::Sqlite => {
                // swarm knob (one run in three): before this run's storage exists, the same thread opens,
                // uses and drops a storage on ANOTHER directory. Legal for a library; anything the
                // backend parks per thread, per process or per object address (connections, caches) is
                // then primed with the other directory's.
                if crate::rng::mix(&[ID_SEED.load(Ordering::SeqCst), 0xDEC0]) % 3 == 0 {
                    let d = fresh_dir("decoy");
                    if let Ok(s) = SqliteStorage::new(&d) {
                        let a: Arc<dyn Storage> = Arc::new(s);
                        if let Ok(mut t) = a.txn(Uuid::from_u128(0xDEC0)) {
                            let _ = t.get_client();
                            let _ = t.new_client(Uuid::nil());
                            let _ = t.commit();
                        }
                        drop(a);
                    }
                }
                let dir = fresh_dir("db");
                if let Some(ps) = page_size {
                    precreate_db(&dir, ps)?;
                }
                let st = SqliteStorage::new(&dir)?;
                Ok(Store {
                    backend,
                    raw: Arc::new(st),
                    dir: Some(dir),
                    owns_dir: true,
                })
            }
        }
    }
    pub fn open_dir(dir: &Path) -> anyhow::Result<Store> {
        let st = SqliteStorage::new(dir)?;
        Ok(Store {
            backend: Backend::Sqlite,
            raw: Arc::new(st),
            dir: Some(dir.to_path_buf()),
            owns_dir: false,
        })
    }
    /// Clean restart: a new storage object on the same directory (schema setup re-run).
    pub fn reopen(&mut self) -> anyhow::Result<()> {
        if let Some(d) = &self.dir {
            self.raw = Arc::new(SqliteStorage::new(d)?);
        }
        Ok(())
    }
}

impl Drop for Store {
    fn drop(&mut self) {
        if self.owns_dir {
            if let Some(d) = &self.dir {
                let _ = std::fs::remove_dir_all(d);
            }
        }
    }
}

// ---------------------------------------------------------------------------------------------
// server instance: library and HTTP entry over the same storage

#[derive(Clone, Copy, PartialEq, Eq, Debug, Serialize, Deserialize, PartialOrd, Ord)]
pub enum Entry {
    Lib,
    Http,
}

pub struct Instance {
    pub ctl: Arc<Ctl>,
    pub lib: Server,
    pub web: WebServer,
    pub skew_us: i64,
}

impl Instance {
    pub fn new(raw: Arc<dyn Storage>, cfg: Cfg, allow: Option<HashSet<Uuid>>, skew_us: i64) -> Instance {
        let ctl = Arc::new(Ctl::default());
        let lib = Server::new(
            ServerConfig {
                snapshot_days: cfg.days,
                snapshot_versions: cfg.versions,
            },
            SimStorage {
                inner: raw.clone(),
                ctl: ctl.clone(),
            },
        );
        let web = WebServer::new(
            ServerConfig {
                snapshot_days: cfg.days,
                snapshot_versions: cfg.versions,
            },
            allow,
            SimStorage {
                inner: raw,
                ctl: ctl.clone(),
            },
        );
        Instance {
            ctl,
            lib,
            web,
            skew_us,
        }
    }

    /// An instance whose `Server` and `WebServer` own concrete `SqliteStorage` objects directly —
    /// no wrapper in between, so whatever methods the storage trait has (or gains) reach the real
    /// backend. Scheduling points then come from the shim VFS.
    pub fn new_sqlite_raw(dir: &Path, cfg: Cfg, allow: Option<HashSet<Uuid>>, skew_us: i64) -> anyhow::Result<Instance> {
        let lib = Server::new(
            ServerConfig {
                snapshot_days: cfg.days,
                snapshot_versions: cfg.versions,
            },
            SqliteStorage::new(dir)?,
        );
        let web = WebServer::new(
            ServerConfig {
                snapshot_days: cfg.days,
                snapshot_versions: cfg.versions,
            },
            allow,
            SqliteStorage::new(dir)?,
        );
        Ok(Instance {
            ctl: Arc::new(Ctl::default()),
            lib,
            web,
            skew_us,
        })
    }

    /// Execute a request through the library entry point.
    pub fn call_lib(&self, req: &Req) -> Resp {
        SKEW_US.with(|s| s.set(self.skew_us));
        let r = std::panic::catch_unwind(std::panic::AssertUnwindSafe(|| self.call_lib_inner(req)));
        match r {
            Ok(r) => r,
            Err(e) => Resp::Panic(panic_msg(&e)),
        }
    }

    fn call_lib_inner(&self, req: &Req) -> Resp {
        fn err(e: ServerError) -> Resp {
            match e {
                ServerError::NoSuchClient => Resp::NoSuchClient,
                ServerError::Other(e) => Resp::Error(format!("{e:#}")),
            }
        }
        match req {
            Req::CreateClient { c } => {
                let r = (|| -> anyhow::Result<()> {
                    let mut t = self.lib.txn(*c).map_err(|e| anyhow::anyhow!("{e}"))?;
                    t.new_client(Uuid::nil())?;
                    t.commit()?;
                    Ok(())
                })();
                match r {
                    Ok(()) => Resp::Created,
                    Err(e) => Resp::Error(format!("{e:#}")),
                }
            }
            Req::AddVersion { c, parent, data } => match self.lib.add_version(*c, *parent, data.to_vec()) {
                Ok((AddVersionResult::Ok(id), u)) => Resp::AvOk {
                    id,
                    urg: match u {
                        SnapshotUrgency::None => Urg::None,
                        SnapshotUrgency::Low => Urg::Low,
                        SnapshotUrgency::High => Urg::High,
                    },
                },
                Ok((AddVersionResult::ExpectedParentVersion(p), _)) => Resp::AvConflict { expected: p },
                Err(e) => err(e),
            },
            Req::GetChild { c, parent } => match self.lib.get_child_version(*c, *parent) {
                Ok(GetVersionResult::Success {
                    version_id,
                    parent_version_id,
                    history_segment,
                }) => Resp::GcFound {
                    id: version_id,
                    parent: parent_version_id,
                    data: Arc::new(history_segment),
                },
                Ok(GetVersionResult::NotFound) => Resp::GcNotFound,
                Ok(GetVersionResult::Gone) => Resp::GcGone,
                Err(e) => err(e),
            },
            Req::AddSnapshot { c, v, data } => match self.lib.add_snapshot(*c, *v, data.to_vec()) {
                Ok(()) => Resp::AsOk,
                Err(e) => err(e),
            },
            Req::GetSnapshot { c } => match self.lib.get_snapshot(*c) {
                Ok(Some((id, data))) => Resp::GsFound {
                    id,
                    data: Arc::new(data),
                },
                Ok(None) => Resp::GsNone,
                Err(e) => err(e),
            },
        }
    }
}

pub fn panic_msg(e: &Box<dyn std::any::Any + Send>) -> String {
    if let Some(s) = e.downcast_ref::<&str>() {
        s.to_string()
    } else if let Some(s) = e.downcast_ref::<String>() {
        s.clone()
    } else {
        "panic".into()
    }
}

// ---------------------------------------------------------------------------------------------
// protocol-visible state projection, through the StorageTxn trait of the *unwrapped* storage

#[derive(Clone, Debug, PartialEq, Eq, PartialOrd, Ord)]
pub struct ProjClient {
    pub latest: Id,
    /// (version, whole-second timestamp, versions_since, fnv of data, data length)
    pub snap: Option<(Id, i64, u32, u64, usize)>,
    /// for each probed id: (probed id, by-id record, by-parent record) as (id,parent,fnv,len)
    pub versions: Vec<(Id, Option<(Id, Id, u64, usize)>, Option<(Id, Id, u64, usize)>)>,
}

pub type Projection = std::collections::BTreeMap<Id, Option<ProjClient>>;

fn vrec(v: Version) -> (Id, Id, u64, usize) {
    (
        v.version_id,
        v.parent_version_id,
        crate::rng::fnv(&v.history_segment),
        v.history_segment.len(),
    )
}

/// Take the projection. `None` = the client does not exist; an existing client with nil latest,
/// no snapshot and no versions is `Some(empty)` (see `identify_empty`).
pub fn project(raw: &Arc<dyn Storage>, clients: &[Id], ids: &[Id]) -> anyhow::Result<Projection> {
    // The storage under test can itself panic on a plain read (an in-memory store whose mutex was
    // poisoned by a panicking request): that is "state unreadable", not a harness crash.
    match std::panic::catch_unwind(std::panic::AssertUnwindSafe(|| project_inner(raw, clients, ids))) {
        Ok(r) => r,
        Err(p) => {
            let msg = p
                .downcast_ref::<String>()
                .cloned()
                .or_else(|| p.downcast_ref::<&str>().map(|s| s.to_string()))
                .unwrap_or_else(|| "panic".into());
            Err(anyhow::anyhow!("storage panicked while being read: {msg}"))
        }
    }
}

fn project_inner(raw: &Arc<dyn Storage>, clients: &[Id], ids: &[Id]) -> anyhow::Result<Projection> {
    let mut out = Projection::new();
    for c in clients {
        let mut t = raw.txn(*c)?;
        let cl = t.get_client()?;
        let mut pc = match cl {
            None => None,
            Some(cl) => {
                let snap = match cl.snapshot {
                    None => None,
                    Some(s) => {
                        let d = t.get_snapshot_data(s.version_id)?;
                        let (h, l) = match &d {
                            Some(d) => (crate::rng::fnv(d), d.len()),
                            None => (0, usize::MAX),
                        };
                        Some((s.version_id, s.timestamp.timestamp(), s.versions_since, h, l))
                    }
                };
                Some(ProjClient {
                    latest: cl.latest_version_id,
                    snap,
                    versions: Vec::new(),
                })
            }
        };
        let mut vs = Vec::new();
        for id in ids {
            let a = t.get_version(*id)?.map(vrec);
            let b = t.get_version_by_parent(*id)?.map(vrec);
            if a.is_some() || b.is_some() {
                vs.push((*id, a, b));
            }
        }
        match pc.as_mut() {
            Some(p) => p.versions = vs,
            None => {
                if !vs.is_empty() {
                    // versions without a client row: keep them visible
                    pc = Some(ProjClient {
                        latest: Uuid::nil(),
                        snap: None,
                        versions: vs,
                    });
                }
            }
        }
        drop(t);
        out.insert(*c, pc);
    }
    Ok(out)
}

pub fn proj_diff(a: &Projection, b: &Projection) -> Option<String> {
    if a == b {
        return None;
    }
    for (k, va) in a {
        let vb = b.get(k);
        if vb != Some(va) {
            let fmt = |p: &Option<ProjClient>| match p {
                None => "absent".to_string(),
                Some(p) => format!(
                    "latest={} snap={:?} nversions={}",
                    crate::model::sid(&p.latest),
                    p.snap.map(|s| (crate::model::sid(&s.0), s.1, s.2, s.4)),
                    p.versions.len()
                ),
            };
            return Some(format!(
                "client {}: before[{}] after[{}]",
                crate::model::sid(k),
                fmt(va),
                vb.map(fmt).unwrap_or_else(|| "missing".into())
            ));
        }
    }
    Some("projection key sets differ".into())
}

/// Identify "client absent" with "client exists but holds nothing" (used only where a property
/// does not distinguish them, e.g. after an injected fault in the create-then-retry path).
pub fn identify_empty(p: &mut Projection) {
    for v in p.values_mut() {
        if let Some(c) = v {
            if c.latest.is_nil() && c.snap.is_none() && c.versions.is_empty() {
                *v = None;
            }
        }
    }
}

/// Open `dir` first in a *fresh process* (a restarted server is a new process: start-up code guarded
/// by process-wide state runs there and only there). Returns false if that process could not open it.
pub fn first_open_in_fresh_process(dir: &Path) -> bool {
    let exe = match std::env::current_exe() {
        Ok(e) => e,
        Err(_) => return true,
    };
    match std::process::Command::new(exe).arg("first-open").arg(dir).stdout(std::process::Stdio::null()).stderr(std::process::Stdio::null()).status() {
        Ok(st) => st.code() == Some(0),
        Err(_) => true,
    }
}
