//! A server instance in ANOTHER PROCESS on the same data directory.
//!
//! Several instances inside the simulator's process share whatever process-wide state the code
//! under test has (statics, `Once`, thread-locals of a shared worker): locking or caching that
//! relies on such state looks correct in-process and fails between real server processes. A request
//! routed here is executed by a child process (`sim xreq`, request on stdin, response on stdout)
//! that opens the directory with the real storage code, serves exactly one request and exits. The
//! child runs to completion while every simulated thread of the parent is parked at a scheduling
//! point, so from the scheduler's view the request is one atomic step of its thread: one seed is
//! still one execution. File locks are real `fcntl` locks between the two processes; the child's
//! busy-wait sleeps are simulated (they cost simulated time, reported back), so a child that finds
//! the write lock held by a parked parent thread exhausts its lock-wait budget at once.

use crate::http::{Chunking, HttpApp};
use crate::model::{Cfg, Req, Resp, Urg};
use crate::world::Instance;
use serde::{Deserialize, Serialize};
use std::io::{Read, Write};
use std::sync::Arc;

#[derive(Serialize, Deserialize)]
pub struct XReq {
    pub dir: String,
    pub days: i64,
    pub versions: u32,
    pub http: bool,
    pub skew_us: i64,
    pub now_us: i64,
    pub seed: u64,
    pub numeric: bool,
    pub id_ctr: u64,
    pub kind: String,
    pub c: String,
    pub id: String,
    pub data: String,
    pub chunk: Chunking,
}

#[derive(Serialize, Deserialize, Default)]
pub struct XResp {
    pub t: String,
    pub id: String,
    pub parent: String,
    pub urg: u8,
    pub data: String,
    pub msg: String,
    pub code: u16,
    pub elapsed_us: i64,
}

fn hex(d: &[u8]) -> String {
    let mut s = String::with_capacity(d.len() * 2);
    for b in d {
        s.push_str(&format!("{b:02x}"));
    }
    s
}

fn unhex(s: &str) -> Vec<u8> {
    (0..s.len() / 2).map(|i| u8::from_str_radix(&s[2 * i..2 * i + 2], 16).unwrap_or(0)).collect()
}

fn uid(s: &str) -> uuid::Uuid {
    uuid::Uuid::parse_str(s).unwrap_or(uuid::Uuid::nil())
}

fn to_x(r: &Resp) -> XResp {
    let mut x = XResp::default();
    match r {
        Resp::AvOk { id, urg } => {
            x.t = "AvOk".into();
            x.id = id.to_string();
            x.urg = match urg {
                Urg::None => 0,
                Urg::Low => 1,
                Urg::High => 2,
            };
        }
        Resp::AvConflict { expected } => {
            x.t = "AvConflict".into();
            x.id = expected.to_string();
        }
        Resp::GcFound { id, parent, data } => {
            x.t = "GcFound".into();
            x.id = id.to_string();
            x.parent = parent.to_string();
            x.data = hex(data);
        }
        Resp::GcNotFound => x.t = "GcNotFound".into(),
        Resp::GcGone => x.t = "GcGone".into(),
        Resp::AsOk => x.t = "AsOk".into(),
        Resp::GsFound { id, data } => {
            x.t = "GsFound".into();
            x.id = id.to_string();
            x.data = hex(data);
        }
        Resp::GsNone => x.t = "GsNone".into(),
        Resp::NoSuchClient => x.t = "NoSuchClient".into(),
        Resp::Created => x.t = "Created".into(),
        Resp::Error(e) => {
            x.t = "Error".into();
            x.msg = e.clone();
        }
        Resp::Refused(c) => {
            x.t = "Refused".into();
            x.code = *c;
        }
        Resp::Panic(e) => {
            x.t = "Panic".into();
            x.msg = e.clone();
        }
    }
    x
}

fn from_x(x: &XResp) -> Resp {
    match x.t.as_str() {
        "AvOk" => Resp::AvOk { id: uid(&x.id), urg: [Urg::None, Urg::Low, Urg::High][(x.urg as usize).min(2)] },
        "AvConflict" => Resp::AvConflict { expected: uid(&x.id) },
        "GcFound" => Resp::GcFound { id: uid(&x.id), parent: uid(&x.parent), data: Arc::new(unhex(&x.data)) },
        "GcNotFound" => Resp::GcNotFound,
        "GcGone" => Resp::GcGone,
        "AsOk" => Resp::AsOk,
        "GsFound" => Resp::GsFound { id: uid(&x.id), data: Arc::new(unhex(&x.data)) },
        "GsNone" => Resp::GsNone,
        "NoSuchClient" => Resp::NoSuchClient,
        "Created" => Resp::Created,
        "Refused" => Resp::Refused(x.code),
        "Panic" => Resp::Panic(x.msg.clone()),
        _ => Resp::Error(x.msg.clone()),
    }
}

/// Child side: serve the one request read from stdin, print the response.
pub fn child_main() -> i32 {
    let mut s = String::new();
    if std::io::stdin().read_to_string(&mut s).is_err() {
        return 2;
    }
    let q: XReq = match serde_json::from_str(&s) {
        Ok(q) => q,
        Err(e) => {
            eprintln!("HARNESS: xreq: bad request: {e}");
            return 2;
        }
    };
    crate::world::begin_run(q.seed, q.now_us);
    crate::world::set_numeric_ids(q.numeric);
    crate::world::set_id_ctr(q.id_ctr);
    let c = uid(&q.c);
    let id = uid(&q.id);
    let data = Arc::new(unhex(&q.data));
    let req = match q.kind.as_str() {
        "av" => Req::AddVersion { c, parent: id, data },
        "gc" => Req::GetChild { c, parent: id },
        "as" => Req::AddSnapshot { c, v: id, data },
        _ => Req::GetSnapshot { c },
    };
    let cfg = Cfg { days: q.days, versions: q.versions };
    let resp = match Instance::new_sqlite_raw(std::path::Path::new(&q.dir), cfg, None, q.skew_us) {
        Err(e) => Resp::Error(format!("cannot open the data directory: {e:#}")),
        Ok(inst) => {
            if q.http {
                let app = HttpApp::new(&inst.web);
                crate::http::call_http(&inst, &app, &req, &q.chunk).0
            } else {
                inst.call_lib(&req)
            }
        }
    };
    let mut x = to_x(&resp);
    x.elapsed_us = crate::sched::now_us() - q.now_us;
    let line = serde_json::to_string(&x).unwrap_or_default();
    let _ = std::io::stdout().write_all(line.as_bytes());
    0
}

/// Parent side: run `req` in a child process against `dir`. Returns the response and the
/// simulated time the child spent (busy waits). `Err` = the harness could not run the child.
pub fn call(dir: &std::path::Path, cfg: Cfg, http: bool, skew_us: i64, seed: u64, id_ctr: u64, req: &Req, chunk: &Chunking) -> Result<(Resp, i64), String> {
    let (kind, c, id, data): (&str, _, _, Vec<u8>) = match req {
        Req::AddVersion { c, parent, data } => ("av", *c, *parent, data.as_ref().clone()),
        Req::GetChild { c, parent } => ("gc", *c, *parent, vec![]),
        Req::AddSnapshot { c, v, data } => ("as", *c, *v, data.as_ref().clone()),
        Req::GetSnapshot { c } => ("gs", *c, uuid::Uuid::nil(), vec![]),
        Req::CreateClient { .. } => return Err("create-client is not a protocol request".into()),
    };
    let q = XReq {
        dir: dir.to_string_lossy().into_owned(),
        days: cfg.days,
        versions: cfg.versions,
        http,
        skew_us,
        now_us: crate::sched::now_us(),
        seed,
        numeric: crate::world::numeric_ids(),
        id_ctr,
        kind: kind.into(),
        c: c.to_string(),
        id: id.to_string(),
        data: hex(&data),
        chunk: chunk.clone(),
    };
    let exe = std::env::current_exe().map_err(|e| e.to_string())?;
    let body = serde_json::to_string(&q).map_err(|e| e.to_string())?;
    // starting a process can fail transiently on a loaded machine: that says nothing about the
    // code under test, so try again (real time is not observable by the run)
    let mut last = String::new();
    for attempt in 0..6 {
        if attempt > 0 {
            std::thread::sleep(std::time::Duration::from_millis(150 * attempt));
        }
        let mut child = match std::process::Command::new(&exe)
            .arg("xreq")
            .stdin(std::process::Stdio::piped())
            .stdout(std::process::Stdio::piped())
            .stderr(std::process::Stdio::null())
            .spawn()
        {
            Ok(c) => c,
            Err(e) => {
                last = format!("spawn: {e}");
                continue;
            }
        };
        if let Some(mut si) = child.stdin.take() {
            if let Err(e) = si.write_all(body.as_bytes()) {
                last = format!("writing the request: {e}");
                let _ = child.kill();
                let _ = child.wait();
                continue;
            }
        }
        let o = match child.wait_with_output() {
            Ok(o) => o,
            Err(e) => return Err(format!("wait: {e}")),
        };
        if !o.status.success() {
            use std::os::unix::process::ExitStatusExt;
            match o.status.signal() {
                // the server process died while serving: abort (double panic), stack overflow, ...
                Some(sig) if sig != libc::SIGKILL => return Ok((Resp::Panic(format!("server process killed by signal {sig} while serving")), 0)),
                // exit codes and SIGKILL (out-of-memory killer) are the harness's own trouble
                // (no retry: the request may already have taken effect)
                _ => return Err(format!("child ended with {}", o.status)),
            }
        }
        match serde_json::from_slice::<XResp>(&o.stdout) {
            Ok(x) => return Ok((from_x(&x), x.elapsed_us.max(0))),
            Err(e) => return Err(format!("bad child output: {e}")),
        }
    }
    Err(last)
}
