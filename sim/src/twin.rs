//! S2 `twin`: the same symbolic history in lock step on several worlds — in-memory, SQLite, SQLite
//! restarted at a random subset of points (C13), or HTTP vs library entry on twin storages (C14).
//! Responses are compared modulo the bijection of issued ids. S7 `iso` (C09): a multi-client
//! history, then each client's projection of it re-run alone on a fresh world with the same clock
//! timeline; the client's responses must be identical.

use crate::http::Chunking;
use crate::model::{Cfg, Req, Resp};
use crate::ops::{client_id, Op};
use crate::report::{viol, RunOut};
use crate::rng::{Digest, Rng};
use crate::sched;
use crate::seq::{self, Focus, GenParams, World};
use crate::world::{Backend, Entry};
use serde::{Deserialize, Serialize};

#[derive(Clone, Copy, Debug, Serialize, Deserialize, PartialEq, Eq)]
pub enum TwinMode {
    /// memory vs SQLite vs SQLite-with-restarts, same entry point
    Backends,
    /// HTTP vs library on twin storages of one backend
    HttpLib,
}

#[derive(Clone, Debug, Serialize, Deserialize)]
pub struct TwinPlan {
    pub seed: u64,
    pub mode: TwinMode,
    pub entry: Entry,
    pub backend: Backend,
    pub page_size: Option<u32>,
    pub n_clients: u8,
    pub cfg: Cfg,
    pub start_us: i64,
    pub ops: Vec<Op>,
}

pub fn gen_plan(seed: u64, mode: TwinMode, thorough: bool) -> TwinPlan {
    let mut r = Rng::stream(seed, "plan");
    let n_clients = 1 + r.weighted(&[30, 35, 20, 15]) as u8;
    let focus = *r.pick(&[Focus::General, Focus::General, Focus::Snapshots, Focus::Urgency]);
    let cfg = seq::gen_cfg(&mut r, focus);
    let backend = match mode {
        TwinMode::Backends => Backend::Sqlite,
        TwinMode::HttpLib => *r.pick(&[Backend::Memory, Backend::Memory, Backend::Sqlite]),
    };
    let entry = match mode {
        TwinMode::Backends => *r.pick(&[Entry::Lib, Entry::Http]),
        // ops are generated for the library (explicit client creation)
        TwinMode::HttpLib => Entry::Lib,
    };
    let page_size = if r.chance(30, 100) { Some(*r.pick(&[512u32, 1024, 8192, 65536])) } else { None };
    let p = GenParams {
        backend: Backend::Sqlite,
        entry,
        focus,
        max_ops: if thorough { 30 } else { 16 },
        max_payload: 12_000,
        whole_sec: true,
        allow_restart: mode == TwinMode::Backends,
        allow_seed: true,
        foreign_lock_pct: 0,
        allow_empty_payload: mode == TwinMode::Backends,
    };
    let mut ops = seq::gen_ops(&mut r, &p, n_clients, &cfg, page_size.unwrap_or(4096));
    // rarely: one upload at (or just below) the 100 MiB size limit, so that the backends' own value
    // limits are compared too
    if r.chance(1, 120) {
        let len = crate::http::MAX_BODY as u32 - *r.pick(&[0u32, 1, 40, 200]);
        let c = r.below(n_clients as u64) as u8;
        let at = r.below(ops.len() as u64 + 1) as usize;
        if r.chance(1, 2) {
            ops.insert(at, Op::AddVersion { c, parent: crate::ops::IdArg::Latest, pay: crate::ops::Pay { class: 0, len, tag: 6_000_001 }, ch: Chunking::Fixed(1 << 22) });
        } else {
            ops.insert(at, Op::AddSnapshot { c, v: crate::ops::IdArg::Latest, pay: crate::ops::Pay { class: 1, len, tag: 6_000_002 }, ch: Chunking::Fixed(1 << 22) });
        }
    }
    if mode == TwinMode::Backends {
        // extra restart points
        let extra = r.range(0, 3);
        for _ in 0..extra {
            let at = r.below(ops.len() as u64 + 1) as usize;
            ops.insert(at, Op::Restart);
        }
    }
    TwinPlan {
        seed,
        mode,
        entry,
        backend,
        page_size,
        n_clients,
        cfg,
        start_us: r.range(0, 86_400) * 1_000_000,
        ops,
    }
}

pub fn exec(plan: &TwinPlan) -> RunOut {
    let mut out = RunOut::default();
    crate::world::begin_run(plan.seed, plan.start_us);
    // (label, world, executes restarts)
    let specs: Vec<(&str, Backend, Entry, bool)> = match plan.mode {
        TwinMode::Backends => vec![
            ("memory", Backend::Memory, plan.entry, false),
            ("sqlite", Backend::Sqlite, plan.entry, false),
            ("sqlite+restarts", Backend::Sqlite, plan.entry, true),
        ],
        TwinMode::HttpLib => vec![("lib", plan.backend, Entry::Lib, false), ("http", plan.backend, Entry::Http, false)],
    };
    let mut worlds: Vec<(&str, World, bool)> = Vec::new();
    for (label, b, e, rs) in specs {
        match World::new(plan.seed, b, e, plan.page_size, plan.n_clients, plan.cfg, None) {
            Ok(w) => worlds.push((label, w, rs)),
            Err(e) => {
                out.harness_error = Some(format!("world setup failed: {e:#}"));
                return out;
            }
        }
    }
    let (prop, oracle): (&[&str], &str) = match plan.mode {
        TwinMode::Backends => (&["C13"], "twin.backends_diverged"),
        TwinMode::HttpLib => (&["C14"], "twin.http_vs_lib_diverged"),
    };
    let mut shape = Digest::default();
    let mut accepted = 0;
    let mut trace: Vec<String> = Vec::new();
    'ops: for op in &plan.ops {
        match op {
            Op::Advance { .. } => {
                // one shared timeline
                worlds[0].1.step(op, &mut out);
                continue;
            }
            Op::Restart => {
                for (_, w, rs) in worlds.iter_mut() {
                    if *rs {
                        w.step(op, &mut out);
                    }
                }
                continue;
            }
            _ => {}
        }
        if plan.mode == TwinMode::HttpLib {
            // AddVersion creating an unknown client is the one documented HTTP/library difference:
            // make the client exist in every world first
            if let Op::AddVersion { c, .. } = op {
                let cid = client_id(plan.seed, *c);
                if worlds[0].1.model.client(&cid).is_none() {
                    for (_, w, _) in worlds.iter_mut() {
                        w.step(&Op::Create { c: *c }, &mut out);
                    }
                }
            }
        }
        let mut canon: Vec<(String, String)> = Vec::new();
        for (label, w, _) in worlds.iter_mut() {
            let before = out.violations.len();
            let s = w.step(op, &mut out);
            // a violation inside one world of a lock-step run is also a divergence witness
            for v in out.violations[before..].iter_mut() {
                if plan.mode == TwinMode::Backends && !v.props.iter().any(|p| p == "C13") {
                    v.props.push("C13".into());
                }
                v.msg = format!("[world {label}] {}", v.msg);
            }
            if let Some(s) = s {
                let c = s.req.client();
                canon.push((label.to_string(), w.canon_resp(&c, &s.resp)));
                if *label == "memory" || *label == "lib" {
                    shape.add_str(s.req.kind());
                    shape.add_str(seq::op_argclass(op));
                    shape.add_str(s.resp.class());
                    if matches!(s.resp, Resp::AvOk { .. }) {
                        accepted += 1;
                    }
                }
            }
        }
        if let Some((l0, c0)) = canon.first().cloned() {
            if trace.len() < 14 {
                trace.push(format!("{} => {}", op.short(), c0));
            }
            for (l, c) in canon.iter().skip(1) {
                if *c != c0 {
                    out.violations.push(viol(prop, oracle, format!("{}: {} answered {} but {} answered {}", op.short(), l0, c0, l, c)));
                }
            }
        }
        out.bump("probe.lockstep_op");
        if crate::report::should_stop(&out) {
            break 'ops;
        }
    }
    if !crate::report::should_stop(&out) {
        // end: every world passes its full walk, and the walks agree
        let mut finals: Vec<(String, Vec<String>)> = Vec::new();
        for (label, w, _) in worlds.iter_mut() {
            w.trace.clear();
            w.full_check(&mut out);
            let mut t = Vec::new();
            for c in w.clients.clone() {
                if let Some(cl) = w.model.client(&c) {
                    t.push(format!(
                        "{}:{}:{:?}",
                        cl.versions.len(),
                        cl.versions.iter().map(|v| format!("{:x}", crate::rng::fnv(&v.data))).collect::<Vec<_>>().join(","),
                        cl.snap.as_ref().map(|s| (s.pos, s.since, crate::rng::fnv(&s.data)))
                    ));
                } else {
                    t.push("-".into());
                }
            }
            finals.push((label.to_string(), t));
        }
        for f in finals.iter().skip(1) {
            if f.1 != finals[0].1 {
                out.violations.push(viol(prop, oracle, format!("final states differ: {} {:?} vs {} {:?}", finals[0].0, finals[0].1, f.0, f.1)));
            }
        }
    }
    if accepted > 0 {
        out.cases.push(shape.0);
    }
    let mut d = Digest::default();
    for (_, w, _) in &worlds {
        d.add_u64(w.digest.0);
    }
    out.digest = d.0;
    out.sim_us = (sched::now_us() - plan.start_us).abs();
    out.bump(&format!("cfg.twin.{:?}", plan.mode));
    out.sample = Some(serde_json::json!({
        "scenario": "twin", "seed": plan.seed, "mode": format!("{:?}", plan.mode), "entry": format!("{:?}", plan.entry),
        "worlds": worlds.iter().map(|w| w.0).collect::<Vec<_>>(),
        "cfg": {"snapshot_days": plan.cfg.days, "snapshot_versions": plan.cfg.versions},
        "lockstep_trace": trace,
    }));
    out
}

pub fn shrink(plan: &TwinPlan) -> Vec<TwinPlan> {
    let sp = seq::SeqPlan {
        seed: plan.seed,
        backend: plan.backend,
        entry: plan.entry,
        page_size: plan.page_size,
        n_clients: plan.n_clients,
        cfg: plan.cfg,
        start_us: plan.start_us,
        ops: plan.ops.clone(),
        walk_every: 0,
        audit: false,
        instances: 1,
        skews_us: vec![],
        route: vec![],
    };
    seq::shrink(&sp)
        .into_iter()
        .map(|s| TwinPlan {
            ops: s.ops,
            page_size: s.page_size,
            ..plan.clone()
        })
        .collect()
}

// ---------------------------------------------------------------------------------------------
// S7 iso

#[derive(Clone, Debug, Serialize, Deserialize)]
pub struct IsoPlan {
    pub seed: u64,
    pub backend: Backend,
    pub entry: Entry,
    pub page_size: Option<u32>,
    pub n_clients: u8,
    pub cfg: Cfg,
    pub start_us: i64,
    pub ops: Vec<Op>,
}

pub fn gen_iso(seed: u64, backend: Backend, entry: Entry, thorough: bool) -> IsoPlan {
    let mut r = Rng::stream(seed, "plan");
    let n_clients = 2 + r.weighted(&[50, 30, 20]) as u8;
    let focus = *r.pick(&[Focus::General, Focus::Snapshots, Focus::Urgency]);
    let cfg = seq::gen_cfg(&mut r, focus);
    let page_size = if backend == Backend::Sqlite && r.chance(25, 100) { Some(*r.pick(&[512u32, 1024, 8192])) } else { None };
    let p = GenParams {
        backend,
        entry,
        focus,
        max_ops: match (backend, thorough) {
            (Backend::Memory, false) => 40,
            (Backend::Memory, true) => 60,
            (Backend::Sqlite, false) => 20,
            (Backend::Sqlite, true) => 34,
        },
        max_payload: 6_000,
        whole_sec: r.chance(50, 100),
        allow_restart: true,
        allow_seed: true,
        foreign_lock_pct: 0,
        allow_empty_payload: true,
    };
    let mut ops = seq::gen_ops(&mut r, &p, n_clients, &cfg, page_size.unwrap_or(4096));
    // quote foreign ids on purpose: rewrite a share of the id arguments
    for op in ops.iter_mut() {
        if r.chance(25, 100) {
            let foreign = if r.chance(70, 100) {
                crate::ops::IdArg::Foreign { dc: r.below(3) as u8, back: r.below(4) as u8 }
            } else {
                crate::ops::IdArg::ForeignSnap { dc: r.below(3) as u8 }
            };
            match op {
                Op::AddVersion { parent, .. } | Op::GetChild { parent, .. } => *parent = foreign,
                Op::AddSnapshot { v, .. } => *v = foreign,
                _ => {}
            }
        }
    }
    if r.chance(25, 100) {
        let frag = seq::foreign_base_motif(&mut r, n_clients, entry);
        let at = r.below(ops.len() as u64 + 1) as usize;
        for (i, o) in frag.into_iter().enumerate() {
            ops.insert(at + i, o);
        }
    }
    IsoPlan {
        seed,
        backend,
        entry,
        page_size,
        n_clients,
        cfg,
        start_us: r.range(0, 86_400_000) * 1000,
        ops,
    }
}

fn op_client(op: &Op) -> Option<u8> {
    match op {
        Op::Create { c } | Op::AddVersion { c, .. } | Op::GetChild { c, .. } | Op::AddSnapshot { c, .. } | Op::GetSnapshot { c } | Op::SeedSnap { c, .. } => Some(*c),
        _ => None,
    }
}

pub fn exec_iso(plan: &IsoPlan) -> RunOut {
    let mut out = RunOut::default();
    crate::world::begin_run(plan.seed, plan.start_us);
    let mut full = match World::new(plan.seed, plan.backend, plan.entry, plan.page_size, plan.n_clients, plan.cfg, None) {
        Ok(w) => w,
        Err(e) => {
            out.harness_error = Some(format!("world setup failed: {e:#}"));
            return out;
        }
    };
    if full.raw_inst {
        out.bump("cfg.servers_own_concrete_sqlite_storage_no_wrapper");
    }
    // run the whole history; remember each client's canonical responses and concrete requests
    let mut per_client: Vec<Vec<String>> = vec![Vec::new(); plan.n_clients as usize];
    // per op: Some((concrete request, role of its id argument relative to the client, chunking))
    let mut issued: Vec<Option<(Req, String, Chunking)>> = Vec::new();
    let mut shape = Digest::default();
    let mut accepted = 0;
    let mut foreign_quotes = 0u64;
    for op in &plan.ops {
        let mut req = crate::ops::concretise(plan.seed, &full.model, plan.n_clients, op);
        if let Some(Req::CreateClient { c }) = &req {
            // storage contract: new_client only for a client that does not exist yet
            if full.model.client(c).is_some() {
                req = None;
            }
        }
        match req {
            None => {
                full.step(op, &mut out);
                issued.push(None);
            }
            Some(req) => {
                let c = req.client();
                let role = match &req {
                    Req::AddVersion { parent, .. } | Req::GetChild { parent, .. } => full.canon_id(&c, parent),
                    Req::AddSnapshot { v, .. } => full.canon_id(&c, v),
                    _ => "-".into(),
                };
                let ch = match op {
                    Op::AddVersion { ch, .. } | Op::AddSnapshot { ch, .. } => ch.clone(),
                    _ => Chunking::Whole,
                };
                let s = full.step_req(req.clone(), &ch, seq::op_argclass(op), &mut out);
                let ci = op_client(op).unwrap() as usize;
                per_client[ci].push(full.canon_resp(&c, &s.resp));
                issued.push(Some((req, role, ch)));
                shape.add_str(s.req.kind());
                shape.add_str(seq::op_argclass(op));
                shape.add_str(s.resp.class());
                if matches!(s.resp, Resp::AvOk { .. }) {
                    accepted += 1;
                }
                if matches!(seq::op_argclass(op), "foreign" | "foreignsnap") {
                    foreign_quotes += 1;
                }
            }
        }
        if crate::report::should_stop(&out) {
            break;
        }
    }
    let full_digest = full.digest.0;
    out.add("probe.foreign_id_quoted", foreign_quotes);
    if !crate::report::should_stop(&out) {
        drop(full);
        for ci in 0..plan.n_clients {
            // same client ids, same clock timeline, only this client's requests; ids the server
            // issues differ (another id seed), so the client's own versions are translated by position
            crate::world::begin_run_styled(plan.seed ^ (0x150 + ci as u64), plan.start_us, plan.seed);
            let mut solo = match World::new(plan.seed, plan.backend, plan.entry, plan.page_size, plan.n_clients, plan.cfg, None) {
                Ok(w) => w,
                Err(e) => {
                    out.harness_error = Some(format!("world setup failed: {e:#}"));
                    return out;
                }
            };
            let mut got: Vec<String> = Vec::new();
            let mut side = RunOut::default();
            for (op, rec) in plan.ops.iter().zip(issued.iter()) {
                match op_client(op) {
                    Some(c) if c != ci => continue,
                    _ => {}
                }
                match rec {
                    None => {
                        solo.step(op, &mut side);
                    }
                    Some((req, role, ch)) => {
                        let c = req.client();
                        let tr = |id: &uuid::Uuid| -> uuid::Uuid {
                            if let Some(pos) = role.strip_prefix('v').and_then(|p| p.parse::<usize>().ok()) {
                                if let Some(cl) = solo.model.client(&c) {
                                    if let Some(v) = cl.versions.get(pos) {
                                        return v.id;
                                    }
                                }
                            }
                            *id
                        };
                        let req2 = match req {
                            Req::AddVersion { c, parent, data } => Req::AddVersion { c: *c, parent: tr(parent), data: data.clone() },
                            Req::GetChild { c, parent } => Req::GetChild { c: *c, parent: tr(parent) },
                            Req::AddSnapshot { c, v, data } => Req::AddSnapshot { c: *c, v: tr(v), data: data.clone() },
                            other => other.clone(),
                        };
                        let s = solo.step_req(req2, ch, seq::op_argclass(op), &mut side);
                        got.push(solo.canon_resp(&c, &s.resp));
                    }
                }
            }
            out.bump("probe.solo_rerun");
            let want = &per_client[ci as usize];
            if got != *want {
                let i = got.iter().zip(want.iter()).position(|(a, b)| a != b).unwrap_or(got.len().min(want.len()));
                out.violations.push(viol(
                    &["C09"],
                    "iso.responses_differ",
                    format!(
                        "client c{} ({}): response #{} is {:?} with other clients interleaved but {:?} when run alone",
                        ci,
                        crate::model::sid(&client_id(plan.seed, ci)),
                        i,
                        want.get(i),
                        got.get(i)
                    ),
                ));
                break;
            }
        }
    }
    if accepted > 0 {
        out.cases.push(shape.0);
    }
    out.digest = full_digest;
    out.sim_us = (sched::now_us() - plan.start_us).abs();
    out.sample = Some(serde_json::json!({
        "scenario": "iso", "seed": plan.seed, "backend": format!("{:?}", plan.backend), "entry": format!("{:?}", plan.entry),
        "clients": plan.n_clients,
        "ops": plan.ops.iter().take(14).map(|o| o.short()).collect::<Vec<_>>(),
        "per_client_responses": per_client.iter().map(|v| v.iter().take(8).cloned().collect::<Vec<_>>()).collect::<Vec<_>>(),
    }));
    out
}

pub fn shrink_iso(plan: &IsoPlan) -> Vec<IsoPlan> {
    let sp = seq::SeqPlan {
        seed: plan.seed,
        backend: plan.backend,
        entry: plan.entry,
        page_size: plan.page_size,
        n_clients: plan.n_clients,
        cfg: plan.cfg,
        start_us: plan.start_us,
        ops: plan.ops.clone(),
        walk_every: 0,
        audit: false,
        instances: 1,
        skews_us: vec![],
        route: vec![],
    };
    seq::shrink(&sp)
        .into_iter()
        .map(|s| IsoPlan {
            ops: s.ops,
            page_size: s.page_size,
            ..plan.clone()
        })
        .collect()
}
