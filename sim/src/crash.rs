//! S4 `crash` (C04): a sequential history on the SQLite backend with image capture at *every*
//! mutating VFS call (write, truncate, sync, delete) made while a request executes. At each such
//! crash point: the process-crash image (the files as they are) and power-loss images (content as
//! of the last sync plus a subset of later writes, each kept / dropped / torn). Every image is
//! recovered through the normal `SqliteStorage::new`, integrity-checked, compared with the model
//! states allowed at that point (before or after the request in flight), and then served.

use crate::model::{Cfg, Model, Req, Resp};
use crate::ops::{self, Op};
use crate::report::{viol, RunOut, Violation};
use crate::rng::{Digest, Rng};
use crate::sched;
use crate::seq::{self, Focus, GenParams, World};
use crate::vfs::{self, Image};
use crate::world::{fresh_dir, Backend, Entry, DB_FILE};
use serde::{Deserialize, Serialize};

#[derive(Clone, Debug, Serialize, Deserialize)]
pub struct CrashPlan {
    pub seed: u64,
    pub entry: Entry,
    pub page_size: Option<u32>,
    pub n_clients: u8,
    pub cfg: Cfg,
    pub start_us: i64,
    pub ops: Vec<Op>,
    pub foreign_conn: bool,
    pub power_images: u32,
    pub garbage: bool,
    /// crash again during recovery of (a sample of) images
    pub nested: bool,
    /// restrict verification to one image (minimised replay files)
    pub only_image: Option<u32>,
}

pub fn gen_plan(seed: u64, entry: Entry, thorough: bool) -> CrashPlan {
    let mut r = Rng::stream(seed, "plan");
    let n_clients = 1 + r.weighted(&[55, 35, 10]) as u8;
    let focus = *r.pick(&[Focus::General, Focus::Snapshots, Focus::Payloads]);
    let mut cfg = seq::gen_cfg(&mut r, focus);
    if cfg.days > 100_000 {
        cfg.days = 14;
    }
    let page_size = if r.chance(35, 100) { Some(*r.pick(&[512u32, 1024, 2048, 8192, 65536])) } else { None };
    let page = page_size.unwrap_or(4096);
    let p = GenParams {
        backend: Backend::Sqlite,
        entry,
        focus,
        max_ops: if thorough { 22 } else { 8 },
        // payloads from 1 B to ~50 pages, so that transactions span one to many pages
        max_payload: if r.chance(35, 100) { page * 50 } else { page * 3 },
        whole_sec: false,
        allow_restart: false,
        allow_seed: false,
        foreign_lock_pct: if r.chance(30, 100) { 15 } else { 0 },
        allow_empty_payload: false,
    };
    let mut ops = seq::gen_ops(&mut r, &p, n_clients, &cfg, page);
    ops.retain(|o| !matches!(o, Op::Advance { .. }));
    CrashPlan {
        seed,
        entry,
        page_size,
        n_clients,
        cfg,
        start_us: r.range(0, 86_400_000) * 1000,
        ops,
        foreign_conn: r.chance(40, 100),
        power_images: if thorough { 6 } else { 2 },
        garbage: r.chance(30, 100),
        nested: thorough && r.chance(25, 100),
        only_image: None,
    }
}

struct Ctx<'a> {
    plan: &'a CrashPlan,
    models: &'a [Model],
    extra_ids: &'a std::collections::BTreeSet<uuid::Uuid>,
}

/// Recover one image and judge it. `depth` > 0: the image was taken while recovering another one.
fn verify_image(ctx: &Ctx, img: &Image, idx: usize, out: &mut RunOut, depth: u32) -> Vec<Violation> {
    let mut vs: Vec<Violation> = Vec::new();
    let dir = fresh_dir("img");
    if let Err(e) = vfs::materialise(img, &dir) {
        out.harness_error = Some(format!("cannot materialise image: {e}"));
        return vs;
    }
    let r = (img.req / 2) as usize;
    let in_flight = img.req % 2 == 0;
    let allowed: Vec<&Model> = if in_flight && r + 1 < ctx.models.len() { vec![&ctx.models[r], &ctx.models[r + 1]] } else { vec![&ctx.models[(r + 1).min(ctx.models.len() - 1)]] };
    let label = format!("image #{idx} ({} at crash point {} = before `{}`, request #{r} {}{})", img.kind, img.point, img.at_call, if in_flight { "in flight" } else { "acknowledged" }, if img.detail.is_empty() { String::new() } else { format!(", {}", img.detail.trim()) });
    let t_save = sched::now_us();
    let nested_capture = depth == 0 && ctx.plan.nested && idx % 7 == 3;
    if nested_capture {
        vfs::track(&dir);
        vfs::mark_all_durable();
        vfs::set_capture(true, 1, false, 64 << 20);
        vfs::pause_capture(false);
        vfs::set_cur_req(img.req);
    }
    // a restarted server is a new process: for a share of the images the directory is first opened
    // by a fresh child process, exactly as a restart would
    if depth == 0 && !nested_capture && idx % 6 == 1 {
        out.bump("probe.image_first_opened_by_fresh_process");
        if !crate::world::first_open_in_fresh_process(&dir) {
            vs.push(viol(&["C04"], "crash.cannot_open", format!("{label}: a freshly started process cannot open the database after the crash")));
        }
    }
    let mut matched: Option<World> = None;
    let mut last_err = String::new();
    for (ci, m) in allowed.iter().enumerate() {
        match World::attach(ctx.plan.seed, &dir, Entry::Lib, ctx.plan.n_clients, ctx.plan.cfg, (*m).clone()) {
            Ok(mut w) => {
                if ci == 0 {
                    // the database opens cleanly: integrity check through a plain connection
                    match rusqlite::Connection::open(dir.join(DB_FILE)).and_then(|c| c.query_row("PRAGMA integrity_check", [], |r| r.get::<_, String>(0))) {
                        Ok(s) if s == "ok" => {}
                        Ok(s) => vs.push(viol(&["C04"], "crash.integrity", format!("{label}: integrity_check says {s}"))),
                        Err(e) => vs.push(viol(&["C04"], "crash.integrity", format!("{label}: integrity_check failed: {e}"))),
                    }
                }
                w.extra_ids = ctx.extra_ids.clone();
                w.tolerate_empty_clients = true;
                let proj = match w.take_projection() {
                    Ok(p) => p,
                    Err(e) => {
                        last_err = format!("state unreadable: {e:#}");
                        continue;
                    }
                };
                let mut cmp = Vec::new();
                w.compare_state(&proj, &mut cmp);
                if cmp.is_empty() {
                    w.proj = proj;
                    out.bump(if allowed.len() == 1 { "probe.image_state_exact" } else if ci == 0 { "probe.image_state_before_inflight" } else { "probe.image_state_after_inflight" });
                    matched = Some(w);
                    break;
                } else {
                    last_err = cmp[0].msg.clone();
                }
            }
            Err(e) => {
                vs.push(viol(&["C04"], "crash.cannot_open", format!("{label}: the database does not open after the crash: {e:#}")));
                break;
            }
        }
    }
    if nested_capture {
        vfs::pause_capture(true);
        vfs::set_capture(false, 0, false, 0);
    }
    if vs.is_empty() {
        match matched {
            None => vs.push(viol(
                &["C04"],
                if in_flight { "crash.half_applied_or_lost" } else { "crash.acknowledged_lost" },
                format!("{label}: recovered state is neither the state before nor after the request in flight ({last_err})"),
            )),
            Some(mut w) => {
                // chains and snapshots are consistent, and the recovered server accepts new versions
                let mut side = RunOut::default();
                w.full_check(&mut side);
                for c in 0..ctx.plan.n_clients {
                    let cid = ops::client_id(ctx.plan.seed, c);
                    if w.model.client(&cid).is_none() {
                        continue;
                    }
                    let op = Op::AddVersion { c, parent: ops::IdArg::Latest, pay: ops::Pay { class: 2, len: 9, tag: 9_000_000 + idx as u32 }, ch: crate::http::Chunking::Whole };
                    if let Some(s) = w.step(&op, &mut side) {
                        if !matches!(s.resp, Resp::AvOk { .. }) {
                            side.violations.push(viol(&["C04"], "crash.not_served_after_recovery", format!("after recovery {} -> {}", s.req.short(), s.resp.short())));
                        }
                    }
                }
                w.full_check(&mut side);
                for mut v in side.violations {
                    if !v.props.iter().any(|p| p == "C04") {
                        v.props.push("C04".into());
                    }
                    v.oracle = format!("crash.after_recovery.{}", v.oracle);
                    v.msg = format!("{label}: after recovery: {}", v.msg);
                    vs.push(v);
                }
                out.bump("probe.image_recovered_and_served");
            }
        }
    }
    sched::set_now_us(t_save);
    let _ = std::fs::remove_dir_all(&dir);
    // crash again during recovery
    if nested_capture {
        let nested = vfs::take_images();
        out.add("probe.nested_crash_images", nested.len() as u64);
        for (j, n) in nested.iter().enumerate() {
            let mut n2 = n.clone();
            n2.req = img.req;
            let sub = verify_image(ctx, &n2, idx * 1000 + j, out, depth + 1);
            for mut v in sub {
                v.msg = format!("[crash during recovery of image #{idx}] {}", v.msg);
                vs.push(v);
            }
            if !vs.is_empty() {
                break;
            }
        }
    }
    vs
}

/// Crash points while the storage is being initialised for the very first time (database file
/// creation, journal-mode switch, schema statements): every image must open with the normal
/// constructor and then serve a first client completely.
fn init_phase(plan: &CrashPlan, out: &mut RunOut) {
    let dir = fresh_dir("init");
    vfs::track(&dir);
    vfs::mark_all_durable();
    vfs::set_capture(true, plan.power_images.min(2), false, 64 << 20);
    vfs::pause_capture(false);
    vfs::set_cur_req(0);
    let r = taskchampion_sync_server_storage_sqlite::SqliteStorage::new(&dir);
    vfs::pause_capture(true);
    vfs::set_capture(false, 0, false, 0);
    let images = vfs::take_images();
    drop(r);
    let _ = std::fs::remove_dir_all(&dir);
    let empty = Model::new(plan.cfg);
    for (i, img) in images.iter().enumerate() {
        if crate::report::should_stop(out) {
            break;
        }
        out.bump(&format!("fault.crash_during_initialisation.{}", img.kind));
        let d = fresh_dir("initimg");
        if vfs::materialise(img, &d).is_err() {
            continue;
        }
        let label = format!("initialisation image #{i} ({} before `{}` {})", img.kind, img.at_call, img.detail.trim());
        let t_save = sched::now_us();
        match World::attach(plan.seed, &d, Entry::Lib, plan.n_clients, plan.cfg, empty.clone()) {
            Err(e) => out.violations.push(viol(&["C04"], "crash.init_cannot_open", format!("{label}: the data directory does not open after a crash during first initialisation: {e:#}"))),
            Ok(mut w) => {
                let mut side = RunOut::default();
                let script = [
                    Op::Create { c: 0 },
                    Op::AddVersion { c: 0, parent: ops::IdArg::Nil, pay: ops::Pay { class: 2, len: 20, tag: 9_500_000 }, ch: crate::http::Chunking::Whole },
                    Op::AddVersion { c: 0, parent: ops::IdArg::Latest, pay: ops::Pay { class: 3, len: 300, tag: 9_500_001 }, ch: crate::http::Chunking::Whole },
                    Op::AddSnapshot { c: 0, v: ops::IdArg::Latest, pay: ops::Pay { class: 4, len: 50, tag: 9_500_002 }, ch: crate::http::Chunking::Whole },
                    Op::GetSnapshot { c: 0 },
                    Op::Restart,
                ];
                for op in &script {
                    w.step(op, &mut side);
                }
                w.full_check(&mut side);
                if let Some(v) = side.violations.first() {
                    out.violations.push(viol(&["C04"], "crash.init_not_served", format!("{label}: after recovery the server does not work: [{}] {}", v.oracle, v.msg)));
                }
            }
        }
        sched::set_now_us(t_save);
        let _ = std::fs::remove_dir_all(&d);
    }
    out.add("probe.initialisation_crash_images", images.len() as u64);
}

pub fn exec(plan: &CrashPlan) -> RunOut {
    let mut out = RunOut::default();
    crate::world::begin_run(plan.seed, plan.start_us);
    if plan.only_image.is_none() && plan.seed % 4 == 0 {
        init_phase(plan, &mut out);
        if crate::report::should_stop(&out) {
            return out;
        }
    }
    let mut w = match World::new(plan.seed, Backend::Sqlite, plan.entry, plan.page_size, plan.n_clients, plan.cfg, None) {
        Ok(w) => w,
        Err(e) => {
            out.harness_error = Some(format!("world setup failed: {e:#}"));
            return out;
        }
    };
    let dir = w.store.dir.clone().unwrap();
    let _foreign = if plan.foreign_conn {
        out.bump("cfg.foreign_connection_held");
        rusqlite::Connection::open(dir.join(DB_FILE)).ok().map(|c| {
            let _ = c.query_row("SELECT count(*) FROM sqlite_master", [], |_| Ok(()));
            c
        })
    } else {
        None
    };
    vfs::track(&dir);
    vfs::mark_all_durable();
    vfs::set_capture(true, plan.power_images, plan.garbage, 384 << 20);
    let mut models: Vec<Model> = vec![w.model.clone()];
    let mut kinds: Vec<&'static str> = Vec::new();
    let mut trace = Vec::new();
    let mut ri = 0i64;
    for op in &plan.ops {
        let is_req = ops::concretise(plan.seed, &w.model, plan.n_clients, op).is_some() || (matches!(op, Op::Resend) && w.last_upload.is_some());
        if let Op::Create { c } = op {
            if w.model.client(&ops::client_id(plan.seed, *c)).is_some() {
                continue;
            }
        }
        if !is_req {
            w.step(op, &mut out);
            continue;
        }
        vfs::set_cur_req(2 * ri);
        let s = w.step(op, &mut out);
        vfs::set_cur_req(2 * ri + 1);
        if let Some(s) = &s {
            kinds.push(s.req.kind());
            if trace.len() < 10 {
                trace.push(format!("#{ri} {} -> {}", s.req.short(), s.resp.short()));
            }
            if vfs::wal_exists() {
                out.bump("probe.wal_survived_request");
            }
        }
        models.push(w.model.clone());
        ri += 1;
        if crate::report::should_stop(&out) {
            break;
        }
    }
    vfs::set_capture(false, 0, false, 0);
    let images = vfs::take_images();
    let (calls, mut_calls, skipped, vdigest) = vfs::snapshot_stats();
    out.add("probe.mutating_vfs_calls", mut_calls);
    if skipped > 0 {
        out.add("budget.crash_points_skipped_image_budget", skipped);
    }
    for (k, v) in calls {
        out.add(&format!("vfs.{k}"), v);
    }
    let extra: std::collections::BTreeSet<uuid::Uuid> = w.model.known_ids();
    let final_digest = w.digest.0;
    drop(_foreign);
    drop(w);
    let ctx = Ctx { plan, models: &models, extra_ids: &extra };
    if !crate::report::should_stop(&out) {
        for (i, img) in images.iter().enumerate() {
            if let Some(only) = plan.only_image {
                if only as usize != i {
                    continue;
                }
            }
            out.bump(&format!("fault.crash.{}", img.kind));
            let r = (img.req / 2) as usize;
            // distinct crash case = image kind x (VFS call, file, log2 size class, first-page?) x request
            // kind x in-flight/acked x surviving-write pattern (counts clipped to 2)
            let toks: Vec<&str> = img.at_call.split(' ').collect();
            let mut call_sig = toks.iter().take(2).cloned().collect::<Vec<_>>().join("-");
            if let Some(rng_tok) = toks.get(2) {
                if let Some((off, len)) = rng_tok.split_once('+') {
                    let len: u64 = len.parse().unwrap_or(0);
                    let off: u64 = off.parse().unwrap_or(1);
                    call_sig.push_str(&format!("-l{}-{}", 64 - len.leading_zeros(), if off == 0 { "start" } else { "later" }));
                }
            }
            let mut pat = String::new();
            for part in img.detail.split_whitespace() {
                if let Some((f, counts)) = part.rsplit_once(':') {
                    let file = if f.ends_with("-wal") { "wal" } else { "db" };
                    let clipped: Vec<String> = counts.split('/').map(|c| {
                        let digits: String = c.chars().filter(|ch| ch.is_ascii_digit()).collect();
                        let name: String = c.chars().filter(|ch| !ch.is_ascii_digit()).collect();
                        format!("{}{}", name, digits.parse::<u32>().unwrap_or(0).min(2))
                    }).collect();
                    pat.push_str(&format!("{file}:{} ", clipped.join("/")));
                }
            }
            out.cases.push(crate::rng::mix(&[crate::rng::tag(img.kind), crate::rng::tag(&call_sig), crate::rng::tag(kinds.get(r).copied().unwrap_or("-")), (img.req % 2) as u64, crate::rng::tag(&pat)]));
            let vs = verify_image(&ctx, img, i, &mut out, 0);
            if !vs.is_empty() {
                LAST_IMAGE.with(|l| l.set(Some(i as u32)));
                out.violations.extend(vs);
                break;
            }
            if out.harness_error.is_some() {
                break;
            }
        }
    }
    out.add("probe.images_verified", images.len() as u64);
    let mut d = Digest::default();
    d.add_u64(final_digest);
    d.add_u64(vdigest);
    d.add_u64(images.len() as u64);
    out.digest = d.0;
    out.sim_us = (sched::now_us() - plan.start_us).abs();
    out.bump(&format!("cfg.entry.{:?}", plan.entry));
    if let Some(ps) = plan.page_size {
        out.bump(&format!("cfg.page_size.{ps}"));
    }
    out.sample = Some(serde_json::json!({
        "scenario": "crash", "seed": plan.seed, "entry": format!("{:?}", plan.entry), "foreign_connection": plan.foreign_conn,
        "page_size": plan.page_size, "history": trace,
        "crash_points": mut_calls, "images": images.len(),
        "first_images": images.iter().take(8).map(|i| format!("{} @{} req#{} before `{}` {}", i.kind, i.point, i.req / 2, i.at_call, i.detail)).collect::<Vec<_>>(),
    }));
    out
}

thread_local! {
    pub static LAST_IMAGE: std::cell::Cell<Option<u32>> = const { std::cell::Cell::new(None) };
}

pub fn shrink(plan: &CrashPlan) -> Vec<CrashPlan> {
    let mut c = Vec::new();
    // shorter histories first (the failing image index moves, so it is not pinned while dropping)
    let n = plan.ops.len();
    if plan.only_image.is_none() {
        let mut chunk = (n / 2).max(1);
        loop {
            let mut i = 0;
            while i + chunk <= n {
                let mut p = plan.clone();
                p.ops.drain(i..i + chunk);
                c.push(p);
                i += chunk;
            }
            if chunk <= 1 {
                break;
            }
            chunk /= 2;
        }
        for (flag, f) in [(plan.foreign_conn, 0), (plan.garbage, 1), (plan.nested, 2), (plan.page_size.is_some(), 3)] {
            if flag {
                let mut p = plan.clone();
                match f {
                    0 => p.foreign_conn = false,
                    1 => p.garbage = false,
                    2 => p.nested = false,
                    _ => p.page_size = None,
                }
                c.push(p);
            }
        }
        // finally pin the image
        let _ = exec(plan);
        if let Some(i) = LAST_IMAGE.with(|l| l.get()) {
            let mut p = plan.clone();
            p.only_image = Some(i);
            c.push(p);
        }
    }
    c
}

#[allow(dead_code)]
fn _unused(_: &Req) {}
