//! S6 `wire`: grammar-generated requests (the "malformed message" fault class) against servers
//! holding non-trivial state, with and without an allow-list, including restart-with-a-new-list.
//! Serves C15, C16, C20 (and C18 for refused requests).

use crate::http::{chunk_body, Chunking, RawResp, WireReq, CT_HS, CT_SNAP, MAX_BODY};
use crate::model::{sid, Cfg, Id, Req};
use crate::ops::{self, client_id, IdArg, Op, Pay};
use crate::report::{viol, RunOut};
use crate::rng::{Digest, Rng};
use crate::sched;
use crate::seq::{self, Focus, GenParams, World};
use crate::world::{proj_diff, Backend, Call, Entry};
use bytes::Bytes;
use serde::{Deserialize, Serialize};
use std::collections::HashSet;
use std::sync::Arc;
use uuid::Uuid;

#[derive(Clone, Copy, Debug, Serialize, Deserialize, PartialEq, Eq)]
pub enum Route {
    AddVersion,
    GetChild,
    AddSnapshot,
    GetSnapshot,
    Index,
    Unknown(u8),
}

#[derive(Clone, Copy, Debug, Serialize, Deserialize, PartialEq, Eq)]
pub enum MethodForm {
    Correct,
    Swapped,
    Put,
    Delete,
    Head,
    Options,
    Patch,
}

#[derive(Clone, Copy, Debug, Serialize, Deserialize, PartialEq, Eq)]
pub enum CidForm {
    Valid,
    Absent,
    Empty,
    NonAscii,
    HighBytes,
    TooShort,
    TooLong,
    Garbage,
    Braced,
    Urn,
    Simple,
    Upper,
    Padded,
    Dup,
    /// a long value with multi-byte characters at varying byte offsets (k ASCII bytes first)
    LongNonAscii(u8),
    /// a well-formed id that is NOT this client's but is derived from it (halves swapped, the same
    /// bit flipped in both halves, a single-bit near miss, bytes reversed): never listed
    Related(u8),
    /// the all-zero uuid: a well-formed client id like any other (a client nobody has seen)
    Nil,
    /// two X-Client-Id headers with DIFFERENT ids: this client's and one that is not on the
    /// allow-list (true: this client's id first)
    DupMixed(bool),
}

#[derive(Clone, Debug, Serialize, Deserialize, PartialEq)]
pub enum PidForm {
    Ok,
    Garbage(u8),
    Short,
    Braced,
    Urn,
    Simple,
    Upper,
    Empty,
    Extra,
}

#[derive(Clone, Copy, Debug, Serialize, Deserialize, PartialEq, Eq)]
pub enum CtForm {
    Correct,
    Absent,
    Wrong,
    OtherProto,
    Param,
    Upper,
}

#[derive(Clone, Debug, Serialize, Deserialize, PartialEq)]
pub enum BodyForm {
    Normal(Pay, Chunking),
    Empty,
    OnlyEmptyChunks,
    /// legal: empty chunks interleaved with data
    WithEmptyChunks(Pay, Chunking),
    /// connection dropped after k chunks
    DropMid(Pay, Chunking, u8),
    /// body of MAX_BODY + delta bytes
    Limit(i8, Chunking),
    /// a slow client: before chunk k (clamped; = number of chunks: before the end of the body)
    /// nothing arrives for this many simulated seconds. Legal; a server with an upload idle timeout
    /// may refuse it (4xx, nothing stored), otherwise the whole body is the upload
    Slow(Pay, Chunking, u8, u16),
}

#[derive(Clone, Debug, Serialize, Deserialize, PartialEq)]
pub struct WireOp {
    pub c: u8,
    pub route: Route,
    pub method: MethodForm,
    pub cid: CidForm,
    pub id: IdArg,
    pub pid: PidForm,
    pub ct: CtForm,
    pub body: BodyForm,
    /// Content-Encoding header on an upload: 0 none, 1 `identity`, 2 `gzip` with a body that IS a
    /// valid gzip stream, 3 `deflate` with a valid zlib stream, 4 `gzip` with a body that is not
    /// gzip, 5 an unknown coding, 6 `br` with arbitrary bytes. The payload is opaque (client-side
    /// encrypted) and must come back exactly as sent, so: refuse, or store the wire bytes.
    #[serde(default)]
    pub enc: u8,
    /// an HTTP header the protocol does not use and the server has no reason to honour: 0 none,
    /// 1 `If-None-Match: *`, 2 `If-None-Match: "<current snapshot / latest version id>"`, 3 the same as a
    /// weak tag, 4 `If-Modified-Since` (far future), 5 `Range: bytes=0-0`, 6 `If-Match: "x"`.
    /// Acceptable: a 4xx refusal that changes nothing, or exactly the protocol outcome
    #[serde(default)]
    pub extra: u8,
    /// HTTP version of the request (0: 1.1, 1: 1.0, 2: 2). The protocol answer and its headers do not depend on it
    #[serde(default)]
    pub ver: u8,
}

#[derive(Clone, Debug, Serialize, Deserialize, PartialEq)]
pub enum WOp {
    Wire(WireOp),
    Plain(Op),
}

#[derive(Clone, Debug, Serialize, Deserialize, PartialEq)]
pub enum AllowMode {
    None,
    Empty,
    /// listed client indices, plus this many unrelated ids
    Listed(Vec<u8>, u8),
}

#[derive(Clone, Debug, Serialize, Deserialize)]
pub struct WirePlan {
    pub seed: u64,
    pub backend: Backend,
    pub page_size: Option<u32>,
    pub n_clients: u8,
    pub cfg: Cfg,
    pub start_us: i64,
    /// history executed before the allow-list is introduced
    pub setup: Vec<Op>,
    pub allow: AllowMode,
    /// the list is introduced by a restart after `setup` (else it is there from the start)
    pub restart_with_list: bool,
    pub ops: Vec<WOp>,
}

fn big_buffer() -> &'static [u8] {
    static BUF: std::sync::OnceLock<&'static [u8]> = std::sync::OnceLock::new();
    BUF.get_or_init(|| {
        let v = vec![0x5au8; MAX_BODY + 1];
        Box::leak(v.into_boxed_slice())
    })
}

fn allow_set(plan: &WirePlan) -> Option<HashSet<Uuid>> {
    match &plan.allow {
        AllowMode::None => None,
        AllowMode::Empty => Some(HashSet::new()),
        AllowMode::Listed(cs, extra) => {
            let mut s: HashSet<Uuid> = cs.iter().map(|c| client_id(plan.seed, *c)).collect();
            for i in 0..*extra {
                s.insert(ops::fresh_id(plan.seed, 5000 + i as u16));
            }
            Some(s)
        }
    }
}

// ---------------------------------------------------------------------------------------------
// generation

fn gen_wire_op(r: &mut Rng, n_clients: u8, page: u32, allow_big: bool) -> WireOp {
    let route = match r.weighted(&[30, 22, 22, 14, 4, 8]) {
        0 => Route::AddVersion,
        1 => Route::GetChild,
        2 => Route::AddSnapshot,
        3 => Route::GetSnapshot,
        4 => Route::Index,
        _ => Route::Unknown(r.below(10) as u8),
    };
    // most requests have exactly one defect; some none, some several
    let defects = match r.weighted(&[22, 58, 20]) {
        0 => 0,
        1 => 1,
        _ => r.range(2, 3),
    };
    let mut w = WireOp {
        c: r.below(n_clients as u64) as u8,
        route,
        method: MethodForm::Correct,
        cid: CidForm::Valid,
        id: if r.chance(50, 100) { IdArg::Latest } else { ops::gen_idarg(r, matches!(route, Route::AddSnapshot)) },
        pid: PidForm::Ok,
        ct: CtForm::Correct,
        body: {
            let len = if r.chance(75, 100) { r.range(1, 60) as u32 } else { ops::gen_len(r, page, 20_000) };
            let py = Pay { class: r.below(ops::N_CLASSES as u64) as u8, len, tag: 1_000_000 + r.below(1 << 20) as u32 };
            let ch = ops::gen_chunking(r, len);
            BodyForm::Normal(py, ch)
        },
        enc: 0,
        extra: 0,
        ver: if r.chance(12, 100) { 1 + r.below(2) as u8 } else { 0 },
    };
    let is_post = matches!(route, Route::AddVersion | Route::AddSnapshot);
    let has_pid = matches!(route, Route::AddVersion | Route::AddSnapshot | Route::GetChild);
    for _ in 0..defects {
        match r.weighted(&[30, if has_pid { 22 } else { 0 }, if is_post { 16 } else { 0 }, if is_post { 22 } else { 0 }, 10, if is_post { 7 } else { 0 }, 6]) {
            0 => {
                w.cid = *r.pick(&[
                    CidForm::Absent, CidForm::Empty, CidForm::NonAscii, CidForm::HighBytes, CidForm::TooShort, CidForm::TooLong, CidForm::Garbage,
                    CidForm::Braced, CidForm::Urn, CidForm::Simple, CidForm::Upper, CidForm::Padded, CidForm::Dup,
                    CidForm::DupMixed(true), CidForm::DupMixed(false), CidForm::DupMixed(false),
                    CidForm::Related(0), CidForm::Related(1), CidForm::Related(2), CidForm::Related(3), CidForm::Nil,
                    CidForm::LongNonAscii(0), CidForm::LongNonAscii(1), CidForm::LongNonAscii(2), CidForm::LongNonAscii(35), CidForm::LongNonAscii(33),
                ])
            }
            1 => {
                w.pid = match r.below(9) {
                    0 | 1 => PidForm::Garbage(r.below(6) as u8),
                    2 => PidForm::Short,
                    3 => PidForm::Braced,
                    4 => PidForm::Urn,
                    5 => PidForm::Simple,
                    6 => PidForm::Upper,
                    7 => PidForm::Empty,
                    _ => PidForm::Extra,
                }
            }
            2 => w.ct = *r.pick(&[CtForm::Absent, CtForm::Wrong, CtForm::OtherProto, CtForm::Param, CtForm::Upper]),
            3 => {
                let py = Pay { class: r.below(ops::N_CLASSES as u64) as u8, len: r.range(2, 5000) as u32, tag: 2_000_000 + r.below(1 << 20) as u32 };
                let ch = Chunking::Fixed(*r.pick(&[1u32, 7, 100, 1000]));
                w.body = match r.below(if allow_big { 9 } else { 6 }) {
                    5 if !allow_big => BodyForm::Slow(py, ch, r.below(4) as u8, *r.pick(&[1u16, 4, 6, 31, 61, 130, 700])),
                    8 => BodyForm::Slow(py, ch, r.below(4) as u8, *r.pick(&[1u16, 4, 6, 31, 61, 130, 700])),
                    0 | 1 => BodyForm::Empty,
                    2 => BodyForm::OnlyEmptyChunks,
                    3 => BodyForm::WithEmptyChunks(py, ch),
                    4 => BodyForm::DropMid(py, ch, r.below(3) as u8),
                    5 => BodyForm::Limit(1, r.pick(&[Chunking::Whole, Chunking::Fixed(1 << 20), Chunking::Fixed(65536), Chunking::Fixed((MAX_BODY / 2) as u32 + 1)]).clone()),
                    6 => BodyForm::Limit(0, r.pick(&[Chunking::Whole, Chunking::Fixed(1 << 20), Chunking::Fixed(65536), Chunking::Fixed((MAX_BODY / 2) as u32)]).clone()),
                    _ => BodyForm::Limit(-1, Chunking::Fixed(1 << 22)),
                };
            }
            4 => w.method = *r.pick(&[MethodForm::Swapped, MethodForm::Put, MethodForm::Delete, MethodForm::Head, MethodForm::Options, MethodForm::Patch]),
            5 => w.enc = *r.pick(&[1u8, 2, 2, 3, 3, 4, 5, 6]),
            _ => w.extra = r.range(1, 6) as u8,
        }
    }
    w
}

pub fn gen_plan(seed: u64, backend: Backend, thorough: bool) -> WirePlan {
    let mut r = Rng::stream(seed, "plan");
    let n_clients = 1 + r.weighted(&[20, 40, 25, 15]) as u8;
    let cfg = seq::gen_cfg(&mut r, Focus::General);
    let page_size = if backend == Backend::Sqlite && r.chance(25, 100) { Some(*r.pick(&[512u32, 1024, 8192])) } else { None };
    let page = page_size.unwrap_or(4096);
    let p = GenParams {
        backend,
        entry: Entry::Http,
        focus: *r.pick(&[Focus::General, Focus::Snapshots]),
        max_ops: if backend == Backend::Memory { 24 } else { 12 },
        max_payload: 8_000,
        whole_sec: false,
        allow_restart: false,
        allow_seed: false,
        foreign_lock_pct: 0,
        allow_empty_payload: false,
    };
    let setup = seq::gen_ops(&mut r, &p, n_clients, &cfg, page);
    let allow = match r.weighted(&[30, 12, 30, 28]) {
        0 => AllowMode::None,
        1 => AllowMode::Empty,
        2 => AllowMode::Listed(vec![r.below(n_clients as u64) as u8], 0),
        _ => {
            let mut cs: Vec<u8> = (0..n_clients).filter(|_| r.chance(60, 100)).collect();
            if cs.is_empty() {
                cs.push(0);
            }
            AllowMode::Listed(cs, r.range(0, 3) as u8)
        }
    };
    let n = r.range(4, if thorough { 40 } else { 24 }) as usize;
    // at most one 100 MiB body per run, memory backend only (quick), rare
    let _ = thorough;
    let big_slot = if (backend == Backend::Memory && r.chance(1, 40)) || (backend == Backend::Sqlite && r.chance(1, 60)) { Some(n - 1) } else { None };
    let mut opsv = Vec::new();
    for i in 0..n {
        if r.chance(8, 100) {
            opsv.push(WOp::Plain(Op::Advance { us: r.range(1, 3 * 86_400) * 1_000_000 }));
        }
        let mut w = gen_wire_op(&mut r, n_clients, page, false);
        if Some(i) == big_slot {
            w.route = if r.chance(50, 100) { Route::AddVersion } else { Route::AddSnapshot };
            w.method = MethodForm::Correct;
            w.pid = PidForm::Ok;
            w.ct = CtForm::Correct;
            w.cid = CidForm::Valid;
            w.id = IdArg::Latest;
            w.body = match r.below(3) {
                0 => BodyForm::Limit(1, r.pick(&[Chunking::Whole, Chunking::Fixed(1 << 20), Chunking::Fixed((MAX_BODY / 2) as u32 + 1)]).clone()),
                1 => BodyForm::Limit(0, r.pick(&[Chunking::Whole, Chunking::Fixed(1 << 20), Chunking::Fixed((MAX_BODY / 2) as u32)]).clone()),
                _ => BodyForm::Limit(-1, Chunking::Fixed(1 << 22)),
            };
        }
        opsv.push(WOp::Wire(w));
    }
    WirePlan {
        seed,
        backend,
        page_size,
        n_clients,
        cfg,
        start_us: r.range(0, 86_400_000) * 1000,
        setup,
        allow,
        restart_with_list: r.chance(70, 100),
        ops: opsv,
    }
}

// ---------------------------------------------------------------------------------------------
// execution

#[derive(Clone, Copy, PartialEq, Eq, Debug)]
enum Class {
    /// must be served exactly as the model predicts
    WellFormed,
    /// may be refused (4xx, nothing changes) or served exactly as the model predicts
    Ambiguous,
    /// must be refused with a 4xx and change nothing
    Malformed,
}

fn uuid_form(id: &Uuid, form: u8) -> String {
    match form {
        1 => format!("{}", id.braced()),
        2 => format!("{}", id.urn()),
        3 => format!("{}", id.simple()),
        4 => id.to_string().to_uppercase(),
        _ => id.to_string(),
    }
}

fn pct(s: &str) -> String {
    s.replace('{', "%7B").replace('}', "%7D")
}

struct Built {
    wire: WireReq,
    class: Class,
    /// the client id is absent or not parseable by any reading
    cid_bad: bool,
    cid_ambiguous: bool,
    /// duplicate client-id headers naming a listed and an unlisted client
    mixed_dup: bool,
    /// the client id the request actually carries when it is not `op.c`'s
    effective: Option<Uuid>,
    /// the protocol request this is a form of (routes with semantics only)
    req: Option<Req>,
    big: bool,
    label: String,
}

fn build(plan: &WirePlan, w: &World, op: &WireOp, cur_allow: &Option<HashSet<Uuid>>) -> Built {
    let cid = client_id(plan.seed, op.c);
    let idv = ops::resolve(plan.seed, &w.model, plan.n_clients, op.c, &op.id);
    let mut class = Class::WellFormed;
    let mut worse = |c: Class| {
        class = match (class, c) {
            (Class::Malformed, _) | (_, Class::Malformed) => Class::Malformed,
            (Class::Ambiguous, _) | (_, Class::Ambiguous) => Class::Ambiguous,
            _ => Class::WellFormed,
        }
    };
    // path
    let pid = match &op.pid {
        PidForm::Ok => idv.to_string(),
        PidForm::Garbage(k) => {
            worse(Class::Malformed);
            match k % 6 {
                0 => "not-a-uuid".to_string(),
                1 => "zzzzzzzz-zzzz-zzzz-zzzz-zzzzzzzzzzzz".to_string(),
                2 => "%FF%FE".to_string(),
                3 => "a".repeat(600),
                4 => format!("{}0", idv),
                _ => "..".to_string(),
            }
        }
        PidForm::Short => {
            worse(Class::Malformed);
            idv.to_string()[..35].to_string()
        }
        PidForm::Braced => {
            worse(Class::Ambiguous);
            pct(&uuid_form(&idv, 1))
        }
        PidForm::Urn => {
            worse(Class::Ambiguous);
            uuid_form(&idv, 2)
        }
        PidForm::Simple => {
            worse(Class::Ambiguous);
            uuid_form(&idv, 3)
        }
        PidForm::Upper => {
            worse(Class::Ambiguous);
            uuid_form(&idv, 4)
        }
        PidForm::Empty => {
            worse(Class::Malformed);
            String::new()
        }
        PidForm::Extra => {
            worse(Class::Malformed);
            format!("{}/extra", idv)
        }
    };
    let (path, correct_method, req): (String, &str, Option<Req>) = match op.route {
        Route::AddVersion => (format!("/v1/client/add-version/{pid}"), "POST", None),
        Route::GetChild => (format!("/v1/client/get-child-version/{pid}"), "GET", Some(Req::GetChild { c: cid, parent: idv })),
        Route::AddSnapshot => (format!("/v1/client/add-snapshot/{pid}"), "POST", None),
        Route::GetSnapshot => ("/v1/client/snapshot".to_string(), "GET", Some(Req::GetSnapshot { c: cid })),
        Route::Index => ("/".to_string(), "GET", None),
        Route::Unknown(k) => {
            worse(Class::Malformed);
            (
                match k % 10 {
                    0 => "/v1/client/".to_string(),
                    1 => "/v1/client/add-version".to_string(),
                    2 => "/v2/client/snapshot".to_string(),
                    3 => "/favicon.ico".to_string(),
                    4 => "/v1/client/snapshot/extra".to_string(),
                    5 => "/v1".to_string(),
                    6 => format!("/v1/client/get-version/{idv}"),
                    7 => "/V1/CLIENT/SNAPSHOT".to_string(),
                    8 => "/v1/client/snapshot/".to_string(),
                    _ => "/index.html".to_string(),
                },
                "GET",
                None,
            )
        }
    };
    let is_post = correct_method == "POST" && !matches!(op.route, Route::Index | Route::Unknown(_));
    let method = match op.method {
        MethodForm::Correct => correct_method.to_string(),
        other => {
            worse(Class::Malformed);
            match other {
                MethodForm::Swapped => if correct_method == "GET" { "POST" } else { "GET" }.to_string(),
                MethodForm::Put => "PUT".into(),
                MethodForm::Delete => "DELETE".into(),
                MethodForm::Head => "HEAD".into(),
                MethodForm::Options => "OPTIONS".into(),
                _ => "PATCH".into(),
            }
        }
    };
    // client id header
    let mut headers: Vec<(String, Vec<u8>)> = Vec::new();
    let mut cid_bad = false;
    let mut cid_ambiguous = false;
    let mut mixed_dup = false;
    let mut effective: Option<Uuid> = None;
    let protocol_route = !matches!(op.route, Route::Index | Route::Unknown(_));
    let h = "X-Client-Id".to_string();
    match op.cid {
        CidForm::Valid => headers.push((h, cid.to_string().into_bytes())),
        CidForm::Absent => cid_bad = true,
        CidForm::Empty => {
            cid_bad = true;
            headers.push((h, vec![]))
        }
        CidForm::NonAscii => {
            cid_bad = true;
            headers.push((h, "é6ba7b81-9dad-11d1-80b4-00c04fd430c8".as_bytes().to_vec()))
        }
        CidForm::HighBytes => {
            cid_bad = true;
            headers.push((h, vec![0xff, 0xfe, 0x80, 0x81]))
        }
        CidForm::Nil => {
            effective = Some(Uuid::nil());
            headers.push((h, Uuid::nil().to_string().into_bytes()))
        }
        CidForm::Related(k) => {
            let b = *cid.as_bytes();
            let mut o = b;
            match k % 4 {
                0 => {
                    o[..8].copy_from_slice(&b[8..]);
                    o[8..].copy_from_slice(&b[..8]);
                }
                1 => {
                    o[3] ^= 0x10;
                    o[11] ^= 0x10;
                }
                2 => o[15] ^= 0x01,
                _ => o.reverse(),
            }
            // the derived id must be nobody this world knows: with few clients whose ids share a long
            // prefix (digit-only mode) a one-bit near miss of one client IS another client
            let mut k = 0usize;
            while Uuid::from_bytes(o) == cid || w.clients.contains(&Uuid::from_bytes(o)) || cur_allow.as_ref().map(|a| a.contains(&Uuid::from_bytes(o))).unwrap_or(false) {
                o[k % 16] ^= 0x80 >> (k / 16 % 8);
                k += 1;
            }
            effective = Some(Uuid::from_bytes(o));
            headers.push((h, Uuid::from_bytes(o).to_string().into_bytes()))
        }
        CidForm::LongNonAscii(k) => {
            cid_bad = true;
            let mut v: Vec<u8> = vec![b'a'; k as usize];
            if k % 2 == 0 {
                v.extend("é€😀".repeat(12).as_bytes());
            } else {
                v.extend(std::iter::repeat(0xffu8).take(40));
            }
            headers.push((h, v))
        }
        CidForm::TooShort => {
            cid_bad = true;
            headers.push((h, cid.to_string()[..35].as_bytes().to_vec()))
        }
        CidForm::TooLong => {
            cid_bad = true;
            headers.push((h, format!("{cid}0").into_bytes()))
        }
        CidForm::Garbage => {
            cid_bad = true;
            headers.push((h, b"'; DROP TABLE clients;--".to_vec()))
        }
        CidForm::Braced => {
            cid_ambiguous = true;
            headers.push((h, uuid_form(&cid, 1).into_bytes()))
        }
        CidForm::Urn => {
            cid_ambiguous = true;
            headers.push((h, uuid_form(&cid, 2).into_bytes()))
        }
        CidForm::Simple => {
            cid_ambiguous = true;
            headers.push((h, uuid_form(&cid, 3).into_bytes()))
        }
        CidForm::Upper => {
            cid_ambiguous = true;
            headers.push((h, uuid_form(&cid, 4).into_bytes()))
        }
        CidForm::Padded => {
            cid_ambiguous = true;
            headers.push((h, format!(" {cid} ").into_bytes()))
        }
        CidForm::Dup => {
            cid_ambiguous = true;
            headers.push((h.clone(), cid.to_string().into_bytes()));
            headers.push((h, cid.to_string().into_bytes()))
        }
        CidForm::DupMixed(mine_first) => {
            cid_ambiguous = true;
            // the other id: a client of this world that is not listed (it may own data from before
            // the list existed), else an unrelated id; without a list it degrades to a plain duplicate
            let other = match cur_allow {
                Some(a) if a.contains(&cid) => w.clients.iter().find(|c| !a.contains(c)).cloned().or(Some(ops::fresh_id(plan.seed, 5100))),
                _ => None,
            };
            match other {
                Some(o) => {
                    mixed_dup = true;
                    let (a, b) = if mine_first { (cid, o) } else { (o, cid) };
                    headers.push((h.clone(), a.to_string().into_bytes()));
                    headers.push((h, b.to_string().into_bytes()))
                }
                None => {
                    headers.push((h.clone(), cid.to_string().into_bytes()));
                    headers.push((h, cid.to_string().into_bytes()))
                }
            }
        }
    }
    if protocol_route {
        if cid_bad {
            worse(Class::Malformed);
        }
        if cid_ambiguous {
            worse(Class::Ambiguous);
        }
    }
    // content type
    let proto_ct = if matches!(op.route, Route::AddSnapshot) { CT_SNAP } else { CT_HS };
    let other_ct = if matches!(op.route, Route::AddSnapshot) { CT_HS } else { CT_SNAP };
    match op.ct {
        CtForm::Correct => headers.push(("Content-Type".into(), proto_ct.as_bytes().to_vec())),
        CtForm::Absent => {
            if is_post {
                worse(Class::Malformed)
            }
        }
        CtForm::Wrong => {
            if is_post {
                worse(Class::Malformed)
            }
            headers.push(("Content-Type".into(), b"text/plain".to_vec()))
        }
        CtForm::OtherProto => {
            if is_post {
                worse(Class::Malformed)
            }
            headers.push(("Content-Type".into(), other_ct.as_bytes().to_vec()))
        }
        CtForm::Param => {
            if is_post {
                worse(Class::Ambiguous)
            }
            headers.push(("Content-Type".into(), format!("{proto_ct}; charset=utf-8").into_bytes()))
        }
        CtForm::Upper => {
            if is_post {
                worse(Class::Ambiguous)
            }
            headers.push(("Content-Type".into(), proto_ct.to_uppercase().into_bytes()))
        }
    }
    if is_post && op.enc != 0 {
        worse(Class::Ambiguous);
        let v: &[u8] = match op.enc {
            1 => b"identity",
            2 | 4 => b"gzip",
            3 => b"deflate",
            5 => b"x-verif-unknown",
            _ => b"br",
        };
        headers.push(("Content-Encoding".into(), v.to_vec()));
    }
    if op.extra != 0 && protocol_route {
        worse(Class::Ambiguous);
        let tag_id = w.model.client(&cid).map(|c| c.snap.as_ref().map(|s| s.version).unwrap_or(c.latest())).unwrap_or(Uuid::nil());
        let (n, v): (&str, String) = match op.extra {
            1 => ("If-None-Match", "*".into()),
            2 => ("If-None-Match", format!("\"{tag_id}\"")),
            3 => ("If-None-Match", format!("W/\"{tag_id}\"")),
            4 => ("If-Modified-Since", "Fri, 01 Jan 2100 00:00:00 GMT".into()),
            5 => ("Range", "bytes=0-0".into()),
            _ => ("If-Match", "\"x\"".into()),
        };
        headers.push((n.into(), v.into_bytes()));
    }
    // body
    let mut chunks: Vec<Bytes> = vec![];
    let mut fail_after = None;
    let mut empties = vec![];
    let mut data: Option<Arc<Vec<u8>>> = None;
    let mut big = false;
    let mut stall: Option<(usize, i64)> = None;
    match &op.body {
        BodyForm::Normal(py, ch) => {
            let mut d = ops::payload(plan.seed, py);
            if is_post && op.enc != 0 {
                // the wire bytes ARE the upload: a body that happens to be a valid compressed stream
                // is still an opaque payload
                match op.enc {
                    2 => d = Arc::new(ops::gzip_stored(&d)),
                    3 => d = Arc::new(ops::zlib_stored(&d)),
                    _ => {}
                }
            }
            chunks = chunk_body(&Bytes::from(d.as_ref().clone()), ch);
            data = Some(d);
        }
        BodyForm::Empty => {
            if is_post {
                worse(Class::Malformed)
            }
        }
        BodyForm::OnlyEmptyChunks => {
            if is_post {
                worse(Class::Malformed)
            }
            empties = vec![0, 0];
        }
        BodyForm::WithEmptyChunks(py, ch) => {
            let d = ops::payload(plan.seed, py);
            chunks = chunk_body(&Bytes::from(d.as_ref().clone()), ch);
            empties = vec![0, 1, chunks.len().saturating_sub(1)];
            data = Some(d);
        }
        BodyForm::DropMid(py, ch, k) => {
            if is_post {
                worse(Class::Malformed)
            }
            let d = ops::payload(plan.seed, py);
            chunks = chunk_body(&Bytes::from(d.as_ref().clone()), ch);
            fail_after = Some((*k as usize).min(chunks.len()));
        }
        BodyForm::Slow(py, ch, k, secs) => {
            if is_post {
                worse(Class::Ambiguous)
            }
            let d = ops::payload(plan.seed, py);
            chunks = chunk_body(&Bytes::from(d.as_ref().clone()), ch);
            stall = Some(((*k as usize).min(chunks.len()), *secs as i64 * 1_000_000));
            data = Some(d);
        }
        BodyForm::Limit(delta, ch) => {
            big = true;
            let n = (MAX_BODY as i64 + *delta as i64) as usize;
            if *delta > 0 && is_post {
                worse(Class::Malformed);
            }
            let b = Bytes::from_static(&big_buffer()[..n]);
            chunks = chunk_body(&b, ch);
            if is_post && *delta <= 0 {
                data = Some(Arc::new(big_buffer()[..n].to_vec()));
            }
        }
    }
    // a client that sends its body in one piece declares its length (what a real HTTP/1.1 client does
    // when it does not use chunked transfer); for a broken upload the declared length is the intended one
    if is_post {
        let whole = match &op.body {
            BodyForm::Normal(_, ch) | BodyForm::WithEmptyChunks(_, ch) | BodyForm::Limit(_, ch) | BodyForm::Slow(_, ch, ..) | BodyForm::DropMid(_, ch, _) => matches!(ch, Chunking::Whole),
            BodyForm::Empty => true,
            BodyForm::OnlyEmptyChunks => false,
        };
        if whole {
            let n: usize = chunks.iter().map(|c| c.len()).sum();
            headers.push(("Content-Length".into(), n.to_string().into_bytes()));
        }
    }
    let req = match (op.route, &data) {
        (Route::AddVersion, Some(d)) => Some(Req::AddVersion { c: cid, parent: idv, data: d.clone() }),
        (Route::AddSnapshot, Some(d)) => Some(Req::AddSnapshot { c: cid, v: idv, data: d.clone() }),
        _ => req,
    };
    if !is_post {
        // GET with a body: ignored by the handlers; keep it small
        if !matches!(op.body, BodyForm::Normal(..)) {
            chunks.clear();
            empties.clear();
            fail_after = None;
            stall = None;
        } else if chunks.len() > 2 {
            chunks.truncate(1);
        }
    }
    let label = format!("{} {} cid={:?} pid={:?} ct={:?}{} body={}", method, if path.len() > 80 { &path[..80] } else { &path }, op.cid, op.pid, op.ct, format!("{}{}{}", if op.enc != 0 { format!(" content-encoding#{}", op.enc) } else { String::new() }, if op.extra != 0 { format!(" extra-header#{}", op.extra) } else { String::new() }, match op.ver { 1 => " HTTP/1.0", 2 => " HTTP/2", _ => "" }), match &op.body {
        BodyForm::Normal(p, _) => format!("{}B", p.len),
        BodyForm::Limit(d, _) => format!("limit{d:+}"),
        o => format!("{o:?}").chars().take(24).collect(),
    });
    Built {
        wire: WireReq { method, path, headers, chunks, fail_after, empties, pending_seed: None, stall, version: op.ver },
        class,
        cid_bad,
        cid_ambiguous,
        mixed_dup,
        effective,
        req,
        big,
        label,
    }
}

pub fn exec(plan: &WirePlan) -> RunOut {
    let mut out = RunOut::default();
    crate::world::begin_run(plan.seed, plan.start_us);
    let allow = allow_set(plan);
    let initial_allow = if plan.restart_with_list { None } else { allow.clone() };
    let mut w = match World::new(plan.seed, plan.backend, Entry::Http, plan.page_size, plan.n_clients, plan.cfg, initial_allow.clone()) {
        Ok(w) => w,
        Err(e) => {
            out.harness_error = Some(format!("world setup failed: {e:#}"));
            return out;
        }
    };
    let listed = |c: &Id, allow: &Option<HashSet<Uuid>>| allow.as_ref().map(|a| a.contains(c)).unwrap_or(true);
    let mut shape = Digest::default();
    // setup history: only meaningful without a list; with a list from the start, unlisted clients
    // are handled by the wire executor below
    let mut cur_allow = initial_allow;
    for op in &plan.setup {
        let c = match op {
            Op::Create { c } | Op::AddVersion { c, .. } | Op::GetChild { c, .. } | Op::AddSnapshot { c, .. } | Op::GetSnapshot { c } | Op::SeedSnap { c, .. } => Some(client_id(plan.seed, *c)),
            _ => None,
        };
        if let Some(c) = c {
            if !listed(&c, &cur_allow) {
                continue;
            }
        }
        w.step(op, &mut out);
        if crate::report::should_stop(&out) {
            break;
        }
    }
    if !crate::report::should_stop(&out) && plan.restart_with_list {
        if let Err(e) = w.restart(allow.clone(), plan.cfg) {
            out.violations.push(viol(&["C13", "C16"], "restart.failed", format!("restart with allow-list failed: {e:#}")));
        }
        cur_allow = allow.clone();
        out.bump("fault.restart_with_new_allowlist");
        match w.take_projection() {
            Ok(p) => {
                if let Some(d) = proj_diff(&w.proj, &p) {
                    out.violations.push(viol(&["C13", "C16"], "restart.changed_state", format!("state changed across restart with a new allow-list: {d}")));
                }
                w.proj = p;
            }
            Err(e) => out.violations.push(viol(&["C13"], "restart.unreadable", format!("{e:#}"))),
        }
    }
    out.bump(&format!("cfg.allowlist.{}", match &plan.allow { AllowMode::None => "absent", AllowMode::Empty => "empty", AllowMode::Listed(v, e) if v.len() + *e as usize == 1 => "one", _ => "many" }));
    let mut trace = Vec::new();
    for wop in &plan.ops {
        if crate::report::should_stop(&out) {
            break;
        }
        let op = match wop {
            WOp::Plain(op) => {
                w.step(op, &mut out);
                continue;
            }
            WOp::Wire(op) => op,
        };
        let b = build(plan, &w, op, &cur_allow);
        let cid = client_id(plan.seed, op.c);
        let protocol_route = !matches!(op.route, Route::Index | Route::Unknown(_));
        // a derived id is some other (never seen) client: with a list it must be refused; without a
        // list it is simply an unknown client, which this executor does not model -> skip
        if b.effective.is_some() && cur_allow.is_none() {
            // ... except the all-zero id on the routes that create nothing: it names a client the
            // server has never seen, and every well-formed client id is served
            if matches!(op.cid, CidForm::Nil) && b.class == Class::WellFormed && matches!(op.route, Route::GetChild | Route::GetSnapshot | Route::AddSnapshot) {
                let raw: RawResp = match w.app.as_ref().unwrap().send(b.wire.clone()) {
                    Ok(r) => r,
                    Err(p) => {
                        out.violations.push(viol(&["C15"], "wire.panic", format!("{} made the handler panic: {p}", b.label)));
                        break;
                    }
                };
                w.steps += 1;
                out.bump("probe.wire.all_zero_client_id");
                if let Some(m) = crate::http::check_cache_control(&b.label, &raw) {
                    out.violations.push(m.into());
                }
                if raw.status != 404 {
                    out.violations.push(viol(&["C14", "C16", "C15"], "wire.all_zero_client_id_not_served", format!("{} names a well-formed client id the server has never seen: answered {} (want 404)", b.label, raw.status)));
                }
                match w.take_projection() {
                    Ok(p) => {
                        if let Some(d) = proj_diff(&w.proj, &p) {
                            out.violations.push(viol(&["C18", "C09"], "wire.refused_changed_state", format!("{} changed state: {d}", b.label)));
                        }
                    }
                    Err(e) => out.violations.push(viol(&["C15", "C13"], "state.unreadable", format!("{e:#}"))),
                }
            }
            continue;
        }
        let is_listed = listed(&b.effective.unwrap_or(cid), &cur_allow);
        let unlisted = protocol_route && !b.cid_bad && !is_listed;
        let route_tag = match op.route {
            Route::AddVersion => "av",
            Route::GetChild => "gc",
            Route::AddSnapshot => "as",
            Route::GetSnapshot => "gs",
            Route::Index => "index",
            Route::Unknown(_) => "unknown",
        };
        shape.add_str(route_tag);
        shape.add_str(&format!("{:?}{:?}{:?}{:?}", b.class, op.cid, op.ct, op.method));
        if b.class == Class::WellFormed && !unlisted && b.req.is_some() {
            // an ordinary protocol request in an unusual but legal wire form
            let req = b.req.clone().unwrap();
            w.wire_override = Some(b.wire);
            let s = w.step_req(req, &Chunking::Whole, "wire", &mut out);
            if cur_allow.is_some() && matches!(s.resp, crate::model::Resp::Refused(403)) {
                out.violations.push(viol(&["C16"], "allow.listed_client_refused", format!("{} comes from a client that is on the allow-list but was answered 403", b.label)));
            }
            if b.big {
                out.bump(&format!("probe.body_at_limit.{}", s.resp.class()));
                if matches!(s.resp, crate::model::Resp::Refused(_) | crate::model::Resp::Error(_) | crate::model::Resp::Panic(_)) {
                    out.violations.push(viol(&["C15", "C06"], "wire.body_within_limit_refused", format!("{} carries a body within the 100 MiB limit but was answered {}", b.label, s.resp.short())));
                }
            }
            shape.add_str(s.resp.class());
            if trace.len() < 14 {
                trace.push(format!("{} => {}", b.label, s.resp.short()));
            }
            out.bump("probe.wire.wellformed_served");
            continue;
        }
        // everything else: send, then judge
        w.inst.ctl.begin_request(vec![]);
        let t_send = sched::now_us();
        let raw: RawResp = match w.app.as_ref().unwrap().send(b.wire.clone()) {
            Ok(r) => r,
            Err(p) => {
                out.violations.push(viol(&["C15"], "wire.panic", format!("{} made the handler panic: {p}", b.label)));
                break;
            }
        };
        let log = w.inst.ctl.take_log();
        w.steps += 1;
        w.digest.add_str(&b.label);
        w.digest.add_u64(raw.status as u64);
        w.last_probe = None;
        out.bump(&format!("http.{}.{}", route_tag, raw.status));
        shape.add_u64(raw.status as u64);
        if trace.len() < 14 {
            trace.push(format!("{} => {}", b.label, raw.status));
        }
        if let Some(m) = crate::http::check_cache_control(&b.label, &raw) {
            out.violations.push(m.into());
        }
        if raw.status >= 500 {
            out.violations.push(viol(&["C15"], "wire.5xx", format!("{} answered {} {}", b.label, raw.status, String::from_utf8_lossy(&raw.body))));
            break;
        }
        let after = match w.take_projection() {
            Ok(p) => p,
            Err(e) => {
                out.violations.push(viol(&["C15", "C13"], "state.unreadable", format!("{e:#}")));
                break;
            }
        };
        let opened_txn = log.iter().any(|(c, _)| *c == Call::Txn);
        let changed = proj_diff(&w.proj, &after);
        let is4xx = (400..500).contains(&raw.status);
        if unlisted {
            // C16: refused without reading or changing any stored state
            // (a request that is unlisted AND otherwise defective may get either refusal: the pinned tree
            // itself checks the content type before the allow-list)
            let otherwise_wellformed = b.class == Class::WellFormed;
            if otherwise_wellformed && !b.cid_ambiguous && raw.status != 403 {
                out.violations.push(viol(&["C16"], "allow.not_403", format!("{} from unlisted client {} answered {} (want 403)", b.label, sid(&cid), raw.status)));
            } else if !is4xx {
                out.violations.push(viol(&["C16", "C15"], "allow.not_refused", format!("{} from unlisted client {} answered {}", b.label, sid(&cid), raw.status)));
            }
            if opened_txn {
                out.violations.push(viol(&["C16"], "allow.touched_storage", format!("{} from unlisted client {} opened a storage transaction: {:?}", b.label, sid(&cid), log)));
            }
            if let Some(d) = &changed {
                out.violations.push(viol(&["C16", "C18"], "allow.changed_state", format!("{} from unlisted client {} changed state: {d}", b.label, sid(&cid))));
            }
            out.bump(&format!("probe.unlisted_refused.{route_tag}"));
            w.proj = after;
            continue;
        }
        let nv_class = out.violations.len();
        let mixed_dup = b.mixed_dup;
        match b.class {
            Class::Malformed => {
                if !is4xx {
                    // an upload whose connection broke mid-body and that is nevertheless stored concerns the
                    // payload properties as well
                    let props: &[&str] = if matches!(op.body, BodyForm::DropMid(..)) { &["C15", "C02", "C06"] } else { &["C15"] };
                    out.violations.push(viol(props, "wire.not_refused", format!("{} answered {} (want 4xx)", b.label, raw.status)));
                }
                if let Some(d) = &changed {
                    let props: &[&str] = if matches!(op.body, BodyForm::DropMid(..)) { &["C15", "C18", "C02", "C06"] } else { &["C15", "C18"] };
                    out.violations.push(viol(props, "wire.refused_changed_state", format!("{} answered {} but changed state: {d}", b.label, raw.status)));
                }
                if b.cid_bad && protocol_route && opened_txn {
                    out.bump("probe.bad_client_id_request_opened_a_transaction");
                }
                let mut wrote = false;
                for (call, ok) in &log {
                    if call.is_write() && *ok {
                        wrote = true;
                    }
                    if *call == Call::Commit && *ok && wrote {
                        out.bump("probe.refused_request_committed_a_write");
                        break;
                    }
                }
                if b.big {
                    out.bump("probe.body_over_limit_refused");
                }
                out.bump("probe.wire.malformed_refused");
            }
            Class::Ambiguous | Class::WellFormed => {
                // Either a refusal (4xx, nothing changes) or served exactly as the model predicts.
                // (WellFormed lands here only for routes without protocol semantics: index.)
                let mut served_ok = false;
                let nviol_before = out.violations.len();
                let mut served_after: Option<crate::world::Projection> = None;
                if let (Some(req), false) = (&b.req, raw.status >= 400 && !matches!(raw.status, 404 | 409 | 410)) {
                    let (resp, enc) = crate::http::decode(req, &raw);
                    let mut m2 = w.model.clone();
                    let t = sched::now_us();
                    let mm = m2.apply(req, &resp, t_send.min(t), t_send.max(t), true);
                    if mm.is_empty() && enc.is_empty() {
                        // adopt, then compare the state with the model
                        w.model = m2;
                        // the projection probes the ids the model knows: take it again now that
                        // the model has bound the ids of this response
                        let after = match w.take_projection() {
                            Ok(p) => p,
                            Err(_) => after.clone(),
                        };
                        served_after = Some(after.clone());
                        if let Some((c, v, ..)) = &w.model.pending_corner {
                            let accepted = after.get(c).cloned().flatten().and_then(|p| p.snap).map(|s| s.0 == *v).unwrap_or(false);
                            w.model.resolve_corner(accepted);
                        }
                        let mut vs = Vec::new();
                        w.compare_state(&after, &mut vs);
                        if vs.is_empty() {
                            served_ok = true;
                            out.bump("probe.wire.ambiguous_served");
                        } else {
                            for mut v in vs {
                                v.props.push("C15".into());
                                out.violations.push(v);
                            }
                        }
                    }
                }
                if !served_ok && out.violations.len() == nviol_before {
                    if b.req.is_some() || protocol_route {
                        if !is4xx {
                            // a partial or conditional answer to a read concerns the payload properties too
                            let props: &[&str] = if op.extra != 0 && matches!(op.route, Route::GetChild | Route::GetSnapshot) { &["C15", "C14", "C06", "C11"] } else if op.extra != 0 { &["C15", "C14"] } else { &["C15"] };
                            out.violations.push(viol(props, "wire.ambiguous_neither", format!("{} answered {}: neither a refusal nor the model's outcome", b.label, raw.status)));
                        } else if matches!(op.route, Route::GetChild)
                            && matches!(raw.status, 404 | 410)
                            && matches!(op.pid, PidForm::Braced | PidForm::Urn | PidForm::Simple | PidForm::Upper)
                            && matches!(op.cid, CidForm::Valid)
                            && matches!(op.method, MethodForm::Correct)
                        {
                            // 404 and 410 are protocol answers of this route ("you are up to date" /
                            // "that version is gone"): a server may refuse another spelling of a uuid,
                            // but not with a status the client reads as an answer about that version
                            out.violations.push(viol(
                                &["C08", "C14"],
                                "wire.id_spelling_changes_protocol_answer",
                                format!("{} answered {} - to a client that is {} - although the model's answer for this parent id differs", b.label, raw.status, if raw.status == 404 { "not-found" } else { "gone" }),
                            ));
                        } else if let Some(d) = &changed {
                            out.violations.push(viol(&["C15", "C18"], "wire.refused_changed_state", format!("{} answered {} but changed state: {d}", b.label, raw.status)));
                        }
                        out.bump("probe.wire.ambiguous_refused");
                    } else if let Some(d) = &changed {
                        out.violations.push(viol(&["C15", "C18"], "wire.refused_changed_state", format!("{} changed state: {d}", b.label)));
                    }
                }
                if mixed_dup {
                    // acceptable: refused, or served as the listed client; anything else means a
                    // request carrying an unlisted id was served under it
                    for v in out.violations[nv_class..].iter_mut() {
                        v.props.push("C16".into());
                        v.oracle = "allow.served_with_unlisted_identity".into();
                        v.msg = format!("a request carrying a listed and an unlisted client id was neither refused nor served as the listed client: {}", v.msg);
                    }
                    out.bump("probe.mixed_duplicate_client_id_headers");
                }
                if let Some(a) = served_after {
                    w.proj = a;
                    continue;
                }
            }
        }
        w.proj = after;
    }
    if !crate::report::should_stop(&out) {
        // listed clients (all clients when there is no list) still behave per model: full walks
        let keep: Vec<Id> = w.clients.iter().filter(|c| listed(c, &cur_allow)).cloned().collect();
        w.proj.retain(|k, _| keep.contains(k));
        let all = std::mem::replace(&mut w.clients, keep);
        w.full_check(&mut out);
        w.clients = all;
    }
    out.cases.push(shape.0);
    out.digest = w.digest.0;
    out.sim_us = (sched::now_us() - plan.start_us).abs();
    out.bump(&format!("cfg.backend.{:?}", plan.backend));
    out.sample = Some(serde_json::json!({
        "scenario": "wire", "seed": plan.seed, "backend": format!("{:?}", plan.backend),
        "allowlist": format!("{:?}", plan.allow), "introduced_by_restart": plan.restart_with_list,
        "setup_ops": plan.setup.len(),
        "trace": trace,
    }));
    out
}

pub fn shrink(plan: &WirePlan) -> Vec<WirePlan> {
    let mut c = Vec::new();
    for (which, n) in [(0, plan.ops.len()), (1, plan.setup.len())] {
        let mut chunk = (n / 2).max(1);
        loop {
            let mut i = 0;
            while i + chunk <= n {
                let mut p = plan.clone();
                if which == 0 {
                    p.ops.drain(i..i + chunk);
                } else {
                    p.setup.drain(i..i + chunk);
                }
                c.push(p);
                i += chunk;
            }
            if chunk <= 1 {
                break;
            }
            chunk /= 2;
        }
    }
    if plan.page_size.is_some() {
        let mut p = plan.clone();
        p.page_size = None;
        c.push(p);
    }
    c
}
