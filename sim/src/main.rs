#![allow(dead_code)]
//! Deterministic simulation harness for taskchampion-sync-server.
//!
//!   sim check <Cxx> <quick|thorough>      run the scenarios serving one property on N processes
//!   sim worker ...                         (internal) one shard
//!   sim replay <file>                      re-execute a replay file; exit 1 iff it reproduces
//!   sim selftest [n]                       determinism proof: every seed twice, digests compared

mod checks;
mod compat;
mod conc;
mod crash;
mod fault;
mod http;
mod model;
mod ops;
mod plan;
mod report;
mod rng;
mod sched;
mod seq;
mod twin;
mod vfs;
mod wire;
mod world;
mod xproc;

use plan::{Job, Plan, ReplayFile};
use report::{Agg, FoundViolation, ShardReport};
use serde::{Deserialize, Serialize};
use std::collections::{BTreeMap, BTreeSet};
use std::path::{Path, PathBuf};
use std::time::Instant;

fn verif_home() -> PathBuf {
    PathBuf::from(std::env::var("VERIF_HOME").unwrap_or_else(|_| "/verif".into()))
}

fn env_u64(k: &str, d: u64) -> u64 {
    std::env::var(k).ok().and_then(|v| v.parse().ok()).unwrap_or(d)
}

#[derive(Clone, Debug, Serialize, Deserialize)]
struct KnownFinding {
    property: String,
    status: String,
    #[serde(default)]
    oracle: String,
    #[serde(default)]
    contains: Vec<String>,
    #[serde(default)]
    commit: String,
    description: String,
}

fn load_known() -> Vec<KnownFinding> {
    let p = verif_home().join("known_findings.json");
    match std::fs::read_to_string(&p) {
        Ok(s) => serde_json::from_str(&s).unwrap_or_else(|e| {
            eprintln!("HARNESS: cannot parse {}: {e}", p.display());
            std::process::exit(2);
        }),
        Err(_) => vec![],
    }
}

fn known_match<'a>(known: &'a [KnownFinding], prop: &str, oracle: &str, msg: &str) -> Option<&'a KnownFinding> {
    known.iter().find(|k| {
        k.status == "known" && k.property == prop && (k.oracle.is_empty() || k.oracle == oracle) && k.contains.iter().all(|c| msg.contains(c.as_str()))
    })
}

fn job_seed(base: u64, job: &str, idx: u64) -> u64 {
    rng::mix(&[base, rng::tag(job), idx])
}

fn quiet_panics() {
    if std::env::var("VERIF_PANIC_TRACE").is_err() { std::panic::set_hook(Box::new(|_| {})); }
}

// ---------------------------------------------------------------------------------------------

fn worker(args: &[String]) -> i32 {
    let prop = &args[0];
    let thorough = args[1] == "thorough";
    let shard: u64 = args[2].parse().unwrap();
    let nshards: u64 = args[3].parse().unwrap();
    let base_seed: u64 = args[4].parse().unwrap();
    let outdir = PathBuf::from(&args[5]);
    quiet_panics();
    report::set_focus(Some(prop.clone()));
    let known = load_known();
    let mut jobs: Vec<Job> = checks::jobs_for(prop);
    if let Ok(f) = std::env::var("VERIF_JOBS") {
        // development aid: restrict to jobs whose name contains the filter
        jobs.retain(|j| j.name.contains(&f));
    }
    // wall cap per job; in the quick tier the whole check stays within ~100 s even on a loaded machine
    let cap_s = if thorough { env_u64("VERIF_THOROUGH_CAP_S", 240) as f64 } else {
        // jobs that enumerate a small fixed grid finish in a second or two: the ~100 s budget is shared by the others
        let sampled = jobs.iter().filter(|j| j.quick > 1000).count().max(1);
        (env_u64("VERIF_QUICK_CAP_S", 18) as f64).min(100.0 / sampled as f64)
    };
    let scale_pct = env_u64("VERIF_SCALE_PCT", 100);
    let mut agg = Agg::default();
    let start = Instant::now();
    let stop = outdir.join("stop");
    let mut known_hits: BTreeSet<String> = BTreeSet::new();
    let mut unconfirmed = 0u32;
    agg.rep.first_seed = u64::MAX;
    'jobs: for job in &jobs {
        let total = (if thorough { job.thorough } else { job.quick }) * scale_pct / 100;
        let jstart = Instant::now();
        let mut idx = shard;
        while idx < total {
            if idx % 8 == shard % 8 && (jstart.elapsed().as_secs_f64() > cap_s || stop.exists()) {
                if jstart.elapsed().as_secs_f64() > cap_s {
                    *agg.rep.stats.entry(format!("budget.capped.{}", job.name)).or_insert(0) += 1;
                }
                if stop.exists() {
                    break 'jobs;
                }
                break;
            }
            let seed = job_seed(base_seed, &job.name, idx);
            agg.rep.first_seed = agg.rep.first_seed.min(seed);
            agg.rep.last_seed = seed;
            let p = plan::gen(&job.kind, seed, idx, thorough);
            if let Ok(mut g) = sched::CURRENT_RUN.lock() {
                *g = format!("job={} idx={idx} seed={seed} thorough={thorough}", job.name);
            }
            let mut out = plan::exec(&p);
            // determinism sample: every so often a run is executed twice; the digests of the full
            // event logs must agree (a mismatch is a harness error, never a violation)
            if (idx / nshards) % (if thorough { 211 } else { 97 }) == 3 {
                let again = plan::exec(&p);
                *agg.rep.stats.entry("determinism.runs_reexecuted_and_compared".into()).or_insert(0) += 1;
                if again.timing_dependent || out.timing_dependent {
                    *agg.rep.stats.entry("determinism.sample_skipped_unknown_os_blocking".into()).or_insert(0) += 1;
                } else if again.digest != out.digest || again.violations.len() != out.violations.len() {
                    agg.rep.harness_errors.push(format!("nondeterminism: job {} seed {seed}: digests {:x} vs {:x}", job.name, out.digest, again.digest));
                }
            }
            for v in &out.violations {
                for pr in &v.props {
                    if pr != prop {
                        *agg.rep.notes.entry(format!("{pr}:{}", v.oracle)).or_insert(0) += 1;
                    }
                }
            }
            let hit = out.first_for(prop).cloned();
            agg.absorb(&job.name, seed, &mut out);
            if let Some(v) = hit {
                // minimise, then decide known / new
                let orig = plan::size(&p);
                let (mut minp, _) = plan::minimise(&p, prop, &v.oracle, 300, 30.0);
                let mut mout = plan::exec(&minp);
                if !mout.has(prop, &v.oracle) {
                    // the minimised plan must fail the same way; otherwise report the original
                    minp = p.clone();
                    mout = plan::exec(&minp);
                }
                let mv = mout
                    .violations
                    .iter()
                    .find(|x| x.oracle == v.oracle && x.props.iter().any(|q| q == prop))
                    .cloned()
                    .unwrap_or(v.clone());
                if let Some(k) = known_match(&known, prop, &mv.oracle, &mv.msg) {
                    known_hits.insert(k.description.clone());
                    idx += nshards;
                    continue;
                }
                let dir = verif_home().join("replays");
                let _ = std::fs::create_dir_all(&dir);
                let path = dir.join(format!("{prop}-{seed}.json"));
                let rf = ReplayFile {
                    property: prop.clone(),
                    oracle: mv.oracle.clone(),
                    message: mv.msg.clone(),
                    seed,
                    scenario: plan::scenario_name(&minp).to_string(),
                    job: job.name.clone(),
                    original_size: orig,
                    minimised_size: plan::size(&minp),
                    plan: minp.clone(),
                };
                std::fs::write(&path, serde_json::to_string_pretty(&rf).unwrap()).expect("write replay");
                // the plan as generated, in case the minimised one only fails with state that the code
                // under test carried over from the minimiser's earlier executions in this process
                let mut full_path = String::new();
                if plan::size(&minp) != orig {
                    let fp = dir.join(format!("{prop}-{seed}.full.json"));
                    let rf_full = ReplayFile {
                        property: prop.clone(),
                        oracle: v.oracle.clone(),
                        message: v.msg.clone(),
                        seed,
                        scenario: plan::scenario_name(&p).to_string(),
                        job: job.name.clone(),
                        original_size: orig,
                        minimised_size: orig,
                        plan: p.clone(),
                    };
                    if std::fs::write(&fp, serde_json::to_string_pretty(&rf_full).unwrap()).is_ok() {
                        full_path = fp.display().to_string();
                    }
                }
                // does it fail in a fresh process too? If not, the failure needs state that the code under
                // test carried over from earlier runs of this worker process: keep looking for one that
                // stands on its own (a few times), and tell the driver
                let reproduces = |file: &str| -> bool {
                    let exe = match std::env::current_exe() {
                        Ok(e) => e,
                        Err(_) => return true,
                    };
                    (0..2).any(|_| matches!(std::process::Command::new(&exe).args(["replay", file]).stdout(std::process::Stdio::null()).stderr(std::process::Stdio::null()).status(), Ok(s) if s.code() == Some(1)))
                };
                if !reproduces(&path.display().to_string()) && (full_path.is_empty() || !reproduces(&full_path)) {
                    unconfirmed += 1;
                    agg.rep.harness_errors.push(format!(
                        "a violation of {prop} [{}] found at seed {seed} in job {} does not reproduce from its replay file in a fresh process (the code under test keeps state across runs in one process): {}",
                        mv.oracle, job.name, mv.msg.chars().take(200).collect::<String>()
                    ));
                    if unconfirmed < 6 {
                        idx += nshards;
                        continue;
                    }
                }
                agg.rep.violations.push(FoundViolation {
                    property: prop.clone(),
                    oracle: mv.oracle.clone(),
                    msg: mv.msg.clone(),
                    seed,
                    scenario: plan::scenario_name(&minp).to_string(),
                    replay: path.display().to_string(),
                    shrunk_from: orig,
                    shrunk_to: plan::size(&minp),
                    signature: String::new(),
                    replay_full: full_path,
                });
                let _ = std::fs::write(&stop, b"violation");
                break 'jobs;
            }
            idx += nshards;
        }
    }
    for k in known_hits {
        agg.rep.stats.insert(format!("known_finding::{k}"), 1);
    }
    agg.rep.wall_s = start.elapsed().as_secs_f64();
    let _ = std::fs::write(outdir.join(format!("shard-{shard}.json")), serde_json::to_string(&agg.rep).unwrap());
    let _ = report::write_u64s(&outdir.join(format!("shard-{shard}.cases")), &agg.cases);
    let _ = report::write_u64s(&outdir.join(format!("shard-{shard}.cells")), &agg.cells);
    world::cleanup_scratch();
    0
}

// ---------------------------------------------------------------------------------------------

fn check(prop: &str, tier_arg: &str) -> i32 {
    let tier = std::env::var("VERIF_TIER").ok().filter(|t| t == "quick" || t == "thorough").unwrap_or_else(|| tier_arg.to_string());
    let base_seed = env_u64("VERIF_SEED", 1);
    let nworkers = env_u64("VERIF_WORKERS", std::thread::available_parallelism().map(|n| n.get() as u64).unwrap_or(8));
    let jobs = checks::jobs_for(prop);
    if jobs.is_empty() {
        eprintln!("HARNESS: no scenarios registered for {prop}");
        return 2;
    }
    let start = Instant::now();
    let outdir = world::scratch_root().join(format!("check-{prop}"));
    let _ = std::fs::remove_dir_all(&outdir);
    std::fs::create_dir_all(&outdir).expect("outdir");
    println!("seed={base_seed} property={prop} tier={tier} workers={nworkers}");
    let exe = std::env::current_exe().expect("exe");
    let mut kids = Vec::new();
    for i in 0..nworkers {
        let child = std::process::Command::new(&exe)
            .args(["worker", prop, &tier, &i.to_string(), &nworkers.to_string(), &base_seed.to_string(), outdir.to_str().unwrap()])
            .spawn()
            .expect("spawn worker");
        kids.push(child);
    }
    let mut harness_errors: Vec<String> = Vec::new();
    for (i, mut k) in kids.into_iter().enumerate() {
        match k.wait() {
            Ok(st) if st.success() => {}
            Ok(st) => harness_errors.push(format!("worker {i} exited with {st}")),
            Err(e) => harness_errors.push(format!("worker {i}: {e}")),
        }
    }
    let mut total = ShardReport::default();
    total.first_seed = u64::MAX;
    let mut cases = BTreeSet::new();
    let mut cells = BTreeSet::new();
    let mut max_wall: f64 = 0.0;
    for i in 0..nworkers {
        let p = outdir.join(format!("shard-{i}.json"));
        let rep: ShardReport = match std::fs::read_to_string(&p).ok().and_then(|s| serde_json::from_str(&s).ok()) {
            Some(r) => r,
            None => {
                harness_errors.push(format!("missing shard report {i}"));
                continue;
            }
        };
        total.runs += rep.runs;
        for (k, v) in rep.stats {
            *total.stats.entry(k).or_insert(0) += v;
        }
        for (k, v) in rep.notes {
            *total.notes.entry(k).or_insert(0) += v;
        }
        for (k, v) in rep.per_job {
            *total.per_job.entry(k).or_insert(0) += v;
        }
        total.violations.extend(rep.violations);
        if total.samples.len() < 3 {
            total.samples.extend(rep.samples.into_iter().take(1));
        }
        total.sim_us += rep.sim_us;
        total.digest_xor ^= rep.digest_xor;
        total.first_seed = total.first_seed.min(rep.first_seed);
        total.last_seed = total.last_seed.max(rep.last_seed);
        total.harness_errors.extend(rep.harness_errors);
        max_wall = max_wall.max(rep.wall_s);
        report::read_u64s(&outdir.join(format!("shard-{i}.cases")), &mut cases);
        report::read_u64s(&outdir.join(format!("shard-{i}.cells")), &mut cells);
    }
    harness_errors.extend(total.harness_errors.iter().cloned());
    // confirm every violation by replaying its file in a fresh process
    let mut confirmed: Vec<FoundViolation> = Vec::new();
    for v in &total.violations {
        // A deterministic system reproduces at the first attempt. If the code under test has itself
        // become nondeterministic (e.g. it iterates a randomised hash set), a few more fresh processes
        // are tried; a violation that reproduces in any of them is real and is reported with a warning.
        let mut ok = false;
        let mut last = String::new();
        for attempt in 0..5 {
            let st = std::process::Command::new(&exe).args(["replay", &v.replay]).stdout(std::process::Stdio::null()).status();
            match st {
                Ok(s) if s.code() == Some(1) => {
                    ok = true;
                    if attempt > 0 {
                        eprintln!("HARNESS (warning): replay of {} reproduced only at attempt {}: the code under test behaves nondeterministically", v.replay, attempt + 1);
                    }
                    break;
                }
                other => last = format!("{other:?}"),
            }
        }
        if !ok && !v.replay_full.is_empty() {
            // the minimised plan does not fail in a fresh process: the code under test keeps state across
            // server objects of one process and the minimiser's executions shared it. The plan as generated
            // is a complete run from a fresh process' point of view: report that one if it reproduces.
            for _ in 0..3 {
                let st = std::process::Command::new(&exe).args(["replay", &v.replay_full]).stdout(std::process::Stdio::null()).status();
                if matches!(st, Ok(s) if s.code() == Some(1)) {
                    ok = true;
                    break;
                }
            }
            if ok {
                eprintln!("HARNESS (warning): the minimised replay {} does not reproduce in a fresh process, the plan as generated does: the code under test keeps state across runs in one process; reporting the unminimised plan", v.replay);
                let mut v2 = v.clone();
                v2.replay = v.replay_full.clone();
                v2.shrunk_to = v.shrunk_from;
                confirmed.push(v2);
                continue;
            }
        }
        if ok {
            confirmed.push(v.clone());
        } else {
            harness_errors.push(format!("replay of {} did not reproduce in 5 fresh processes ({last}): nondeterminism is a harness error", v.replay));
        }
    }
    let wall = start.elapsed().as_secs_f64();
    let meta = checks::meta(prop);
    let known: Vec<String> = total.stats.keys().filter_map(|k| k.strip_prefix("known_finding::").map(|s| s.to_string())).collect();
    let fired: BTreeMap<&String, &u64> = total.stats.iter().filter(|(k, _)| k.starts_with("fault.") || k.starts_with("clock.") || k.starts_with("seed.")).collect();
    let probes: BTreeMap<&String, &u64> = total.stats.iter().filter(|(k, _)| k.starts_with("probe.") || k.starts_with("corner.") || k.starts_with("budget.") || k.starts_with("pair.")).collect();
    let outcomes: BTreeMap<&String, &u64> = total.stats.iter().filter(|(k, _)| k.starts_with("resp.") || k.starts_with("http.") || k.starts_with("cfg.")).collect();
    let other: BTreeMap<&String, &u64> = total.stats.iter().filter(|(k, _)| !(k.starts_with("fault.") || k.starts_with("clock.") || k.starts_with("seed.") || k.starts_with("probe.") || k.starts_with("corner.") || k.starts_with("budget.") || k.starts_with("pair.") || k.starts_with("resp.") || k.starts_with("http.") || k.starts_with("cfg.") || k.starts_with("known_finding::"))).collect();
    let mut samples = total.samples.clone();
    if samples.is_empty() {
        samples.push(serde_json::json!("no sample recorded"));
    }
    let evidence = serde_json::json!({
        "property_id": prop,
        "tier": tier,
        "seed": base_seed,
        "level": meta.level,
        "coverage": {
            "evaluations": meta.eval_counter.and_then(|c| total.stats.get(c).copied()).unwrap_or(total.runs),
            "simulated_runs": total.runs,
            "distinct_nontrivial": cases.len(),
            "rule": meta.rule,
            "samples": samples,
            "exhaustive": false,
            "runs_per_job": total.per_job,
            "runs_per_hour": if wall > 0.0 { (total.runs as f64 / wall * 3600.0) as u64 } else { 0 },
            "seed_range": {"base": base_seed, "min_run_seed": total.first_seed, "max_run_seed": total.last_seed, "derivation": "run seed = mix(VERIF_SEED, fnv(job name), run index)"},
            "simulated_time_s": (total.sim_us / 1_000_000) as i64,
            "faults_fired": fired,
            "reach_probes": probes,
            "outcomes": outcomes,
            "other_counters": other,
            "distinct_state_op_outcome_cells": cells.len(),
            "event_log_digest_xor": format!("{:016x}", total.digest_xor),
            "notes_other_properties": total.notes,
            "known_findings_hit": known,
            "components": {
                "real_code": ["taskchampion-sync-server-core::Server (all protocol logic)", "InMemoryStorage", "SqliteStorage + rusqlite + bundled SQLite 3.46 (pager, WAL, busy handler) over the real unix VFS on tmpfs", "server::api handlers (add_version, get_child_version, add_snapshot, get_snapshot), ServerState::client_id_header, WebServer::config routing, actix extractors and DefaultHeaders middleware"],
                "simulated_or_stubbed": ["thread scheduling (real threads, one runnable at a time, seeded choice)", "wall clock + per-instance skew (verif hook), SQLite's clock and randomness (shim VFS)", "version-id source (verif hook)", "sockets + HTTP/1.1 codec (requests enter at the actix service layer as chunk streams)", "disk durability, I/O errors, process death, power loss (shim VFS: shadow model, fault plan, image capture)", "several server processes (several instances in one process)", "the binary's main() (never run)"],
            },
        },
        "assumptions": meta.assumptions,
        "wall_s": wall,
        "violations": confirmed.len(),
    });
    let evdir = verif_home().join("evidence");
    let _ = std::fs::create_dir_all(&evdir);
    if let Err(e) = std::fs::write(evdir.join(format!("{prop}.json")), serde_json::to_string_pretty(&evidence).unwrap()) {
        harness_errors.push(format!("cannot write evidence: {e}"));
    }
    let _ = std::fs::remove_dir_all(&outdir);
    world::cleanup_scratch();
    println!(
        "runs={} distinct_nontrivial={} cells={} sim_time_s={} wall_s={:.1} (slowest worker {:.1}s)",
        total.runs,
        cases.len(),
        cells.len(),
        total.sim_us / 1_000_000,
        wall,
        max_wall
    );
    for k in &known {
        println!("KNOWN-FINDING: property={prop} {k}");
    }
    if !total.notes.is_empty() {
        println!("notes (oracles of other properties that fired in shared scenarios): {:?}", total.notes);
    }
    // A violation whose replay file reproduced in a fresh process stands on its own, even if the
    // code under test also made some runs nondeterministic (e.g. by iterating a randomised hash set):
    // report it; harness problems are then printed as warnings.
    if !harness_errors.is_empty() && confirmed.is_empty() {
        for e in &harness_errors {
            eprintln!("HARNESS: {e}");
        }
        return 2;
    }
    if total.runs == 0 {
        eprintln!("HARNESS: no runs executed");
        return 2;
    }
    if !confirmed.is_empty() {
        for e in &harness_errors {
            eprintln!("HARNESS (warning, a confirmed violation is reported below): {e}");
        }
        for v in &confirmed {
            println!("violation: [{}] seed={} shrunk {}->{} ops: {}", v.oracle, v.seed, v.shrunk_from, v.shrunk_to, v.msg);
            println!("VIOLATION property={} replay={}", v.property, v.replay);
        }
        return 1;
    }
    println!("OK property={prop} held on everything explored");
    0
}

fn replay(path: &str) -> i32 {
    quiet_panics();
    let s = match std::fs::read_to_string(path) {
        Ok(s) => s,
        Err(e) => {
            eprintln!("HARNESS: cannot read {path}: {e}");
            return 2;
        }
    };
    let rf: ReplayFile = match serde_json::from_str(&s) {
        Ok(r) => r,
        Err(e) => {
            eprintln!("HARNESS: cannot parse {path}: {e}");
            return 2;
        }
    };
    println!("seed={} scenario={} property={} oracle={}", rf.seed, rf.scenario, rf.property, rf.oracle);
    report::set_focus(Some(rf.property.clone()));
    let out = plan::exec(&rf.plan);
    world::cleanup_scratch();
    if let Some(e) = &out.harness_error {
        eprintln!("HARNESS: {e}");
        return 2;
    }
    for v in &out.violations {
        println!("  [{}] {:?} {}", v.oracle, v.props, v.msg);
    }
    if out.has(&rf.property, &rf.oracle) {
        println!("REPRODUCED property={} oracle={}", rf.property, rf.oracle);
        1
    } else {
        println!("NOT REPRODUCED (expected [{}]: {})", rf.oracle, rf.message);
        0
    }
}

/// Determinism proof: each seed is executed twice in this process and (by the caller script) in
/// different processes with different scratch paths; digests must agree.
fn selftest(args: &[String]) -> i32 {
    quiet_panics();
    let n: u64 = args.first().and_then(|s| s.parse().ok()).unwrap_or(200);
    let base = env_u64("VERIF_SEED", 1);
    let mut bad = 0;
    let mut lines = Vec::new();
    let mut seen = BTreeSet::new();
    for prop in checks::ALL_PROPS {
        for job in checks::jobs_for(prop) {
            if !seen.insert(job.name.clone()) {
                continue;
            }
            let mut x = 0u64;
            for idx in 0..n {
                let seed = job_seed(base, &job.name, idx);
                let p = plan::gen(&job.kind, seed, idx, false);
                let a = plan::exec(&p);
                let b = plan::exec(&p);
                if a.digest != b.digest || a.violations.len() != b.violations.len() {
                    bad += 1;
                    eprintln!("NONDETERMINISM job={} seed={seed}: {:x} vs {:x}", job.name, a.digest, b.digest);
                }
                x ^= rng::mix(&[seed, a.digest]);
            }
            lines.push(format!("{} {:016x}", job.name, x));
        }
    }
    lines.sort();
    lines.dedup();
    for l in lines {
        println!("{l}");
    }
    world::cleanup_scratch();
    if bad > 0 {
        2
    } else {
        0
    }
}

fn main() {
    let args: Vec<String> = std::env::args().skip(1).collect();
    let code = match args.first().map(|s| s.as_str()) {
        Some("check") if args.len() >= 3 => check(&args[1], &args[2]),
        Some("worker") if args.len() >= 7 => worker(&args[1..]),
        Some("replay") if args.len() >= 2 => replay(&args[1]),
        Some("selftest") => selftest(&args[1..]),
        // (internal) a server instance in another process: serve the one request on stdin
        Some("xreq") => {
            quiet_panics();
            xproc::child_main()
        }
        // (internal) open a data directory the way a freshly started server process does, read once, exit
        Some("first-open") if args.len() >= 2 => {
            use taskchampion_sync_server_core::Storage;
            match taskchampion_sync_server_storage_sqlite::SqliteStorage::new(&args[1]) {
                Ok(st) => {
                    let r = st.txn(uuid::Uuid::nil()).and_then(|mut t| t.get_client().map(|_| ()));
                    if r.is_ok() {
                        0
                    } else {
                        3
                    }
                }
                Err(_) => 3,
            }
        }
        Some("gen-corpus") if args.len() >= 3 => {
            quiet_panics();
            match compat::gen_corpus(Path::new(&args[1]), &args[2]) {
                Ok(n) => {
                    println!("wrote {n} fixtures to {}", args[1]);
                    0
                }
                Err(e) => {
                    eprintln!("HARNESS: corpus generation failed: {e}");
                    2
                }
            }
        }
        _ => {
            eprintln!("usage: sim check <Cxx> <quick|thorough> | sim replay <file> | sim selftest [n]");
            2
        }
    };
    std::process::exit(code);
}

#[allow(dead_code)]
fn _unused(_: &Path, _: &Plan) {}
