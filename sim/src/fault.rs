//! S5 `fault` (C05): for a history H on the SQLite backend and every request r in it, every
//! storage call r makes is made to fail — before or after taking effect (wrapper storage), and
//! every VFS call of r is made to fail with the error kinds real disks produce (shim VFS). Each
//! injection runs on its own copy of the data directory as of just before r.

use crate::http::Chunking;
use crate::model::{sid, Cfg, Model, Req, Resp, SnapDecision, Urg};
use crate::ops::{self, Op};
use crate::report::{viol, RunOut};
use crate::rng::{Digest, Rng};
use crate::sched;
use crate::seq::{self, Focus, GenParams, World};
use crate::vfs::{self, FaultKind, VfsFault};
use crate::world::{fresh_dir, proj_diff, Backend, Call, Entry, StorageFault, DB_FILE};
use serde::{Deserialize, Serialize};
use std::path::Path;

#[derive(Clone, Copy, Debug, Serialize, Deserialize, PartialEq, Eq)]
pub enum FaultLayer {
    /// the `Storage`/`StorageTxn` seam: txn, each read, each write, commit × {before, after}
    StorageCalls,
    /// the VFS: write/sync/read/open/truncate/delete/shm/lock errors, full disk
    Vfs,
}

#[derive(Clone, Debug, Serialize, Deserialize)]
pub struct FaultPlan {
    pub seed: u64,
    pub entry: Entry,
    pub layer: FaultLayer,
    pub page_size: Option<u32>,
    pub n_clients: u8,
    pub cfg: Cfg,
    pub start_us: i64,
    pub ops: Vec<Op>,
    /// another connection is held open on the database (an admin shell / another instance):
    /// no checkpoint-on-close, the WAL carries many commits
    pub foreign_conn: bool,
    /// also inject sampled pairs of faults
    pub doubles: u8,
    /// restrict to one (request index, fault index) — used by minimised replay files
    pub only: Option<(u32, u32)>,
}

pub fn gen_plan(seed: u64, entry: Entry, layer: FaultLayer, thorough: bool) -> FaultPlan {
    let mut r = Rng::stream(seed, "plan");
    let n_clients = 1 + r.weighted(&[55, 35, 10]) as u8;
    let focus = *r.pick(&[Focus::General, Focus::Snapshots]);
    let mut cfg = seq::gen_cfg(&mut r, focus);
    if cfg.days > 100_000 {
        cfg.days = 14;
    }
    let page_size = if r.chance(25, 100) { Some(*r.pick(&[512u32, 1024, 8192])) } else { None };
    let p = GenParams {
        backend: Backend::Sqlite,
        entry,
        focus,
        max_ops: if thorough { 16 } else { 9 },
        max_payload: if r.chance(20, 100) { 30_000 } else { 3_000 },
        whole_sec: false,
        allow_restart: false,
        allow_seed: false,
        foreign_lock_pct: 0,
        allow_empty_payload: false,
    };
    let mut ops = seq::gen_ops(&mut r, &p, n_clients, &cfg, page_size.unwrap_or(4096));
    ops.retain(|o| !matches!(o, Op::Advance { .. }));
    FaultPlan {
        seed,
        entry,
        layer,
        page_size,
        n_clients,
        cfg,
        start_us: r.range(0, 86_400_000) * 1000,
        ops,
        foreign_conn: r.chance(35, 100),
        doubles: if r.chance(40, 100) { 3 } else { 0 },
        only: None,
    }
}

fn copy_dir(src: &Path, dst: &Path) -> std::io::Result<()> {
    std::fs::create_dir_all(dst)?;
    for e in std::fs::read_dir(src)? {
        let e = e?;
        let name = e.file_name();
        if name.to_string_lossy().ends_with("-shm") {
            continue;
        }
        std::fs::copy(e.path(), dst.join(name))?;
    }
    Ok(())
}

#[derive(Clone, Debug)]
enum Inj {
    Storage(Vec<StorageFault>),
    Vfs(VfsFault),
    /// the storage is down for a while: the same request fails at the same storage call this many
    /// times in a row (a retrying client), then the storage is healthy again. Whatever a server
    /// counts, caches or reserves per attempt must be given back each time.
    Storm(StorageFault, u32),
    /// SQLITE_INTERRUPT at the n-th progress callback of the request (a point inside a statement)
    Interrupt(u64),
}

/// Run request `op` on `w` with the injection and judge the outcome. Returns whether a fault fired.
fn faulted_request(w: &mut World, op: &Op, inj: &Inj, out: &mut RunOut) -> bool {
    let req = match ops::concretise(w.seed, &w.model, w.n_clients, op) {
        Some(r) => r,
        None => return false,
    };
    let ch = match op {
        Op::AddVersion { ch, .. } | Op::AddSnapshot { ch, .. } => ch.clone(),
        _ => Chunking::Whole,
    };
    let http = w.entry == Entry::Http;
    if let Inj::Storm(f, n) = inj {
        for k in 0..n.saturating_sub(1) {
            w.next_faults = vec![*f];
            let r = w.issue(&req, &ch, out);
            let fired = !w.inst.ctl.fired().is_empty();
            let _ = w.inst.ctl.take_log();
            if !fired {
                if k == 0 {
                    return false;
                }
                // the same request on the same state reached the storage call in every earlier attempt
                // and now fails (or is answered) without reaching it: the failures left something behind
                out.violations.push(viol(
                    &["C05"],
                    "fault.later_request_not_served",
                    format!("after {k} consecutive failures of storage call {:?}, the same request no longer reaches the storage: {} answered {}", f, req.short(), r.short()),
                ));
                return true;
            }
            if !matches!(r, Resp::Error(_)) {
                out.violations.push(viol(&["C05"], "fault.success_despite_failure", format!("{} answered {} although storage call {:?} failed (attempt {} of a series)", req.short(), r.short(), f, k + 1)));
                return true;
            }
        }
        out.bump("fault.storage_down_for_a_series_of_attempts");
        return faulted_request(w, op, &Inj::Storage(vec![*f]), out);
    }
    let before = w.proj.clone();
    let model_before = w.model.clone();
    let cid = req.client();
    let t = sched::now_us();
    match inj {
        Inj::Storage(f) => {
            w.next_faults = f.clone();
            vfs::begin_window(None);
        }
        Inj::Vfs(f) => vfs::begin_window(Some(*f)),
        Inj::Interrupt(n) => {
            vfs::begin_window(None);
            vfs::begin_interrupt_window(Some(*n));
        }
        Inj::Storm(..) => unreachable!(),
    }
    let resp = w.issue(&req, &ch, out);
    let (_, interrupts) = vfs::end_interrupt_window();
    let mut vfired = vfs::end_window();
    if interrupts > 0 {
        vfired.push(format!("SQLITE_INTERRUPT at progress callback {:?}", inj));
    }
    let sfired = w.inst.ctl.fired();
    let log = w.inst.ctl.take_log();
    let t2 = sched::now_us();
    let fired = !vfired.is_empty() || !sfired.is_empty();
    if !fired {
        return false;
    }
    let what = match inj {
        Inj::Storage(_) | Inj::Storm(..) => format!("storage call {:?}", sfired),
        Inj::Vfs(_) | Inj::Interrupt(_) => format!("vfs {:?}", vfired),
    };
    for (_, call, after) in &sfired {
        out.bump(&format!("fault.storage.{:?}.{}", call, if *after { "after_effect" } else { "before_effect" }));
    }
    if let Inj::Vfs(f) = inj {
        out.bump(&format!("fault.vfs.{:?}", f.kind));
    }
    if let Inj::Interrupt(_) = inj {
        out.bump("fault.sqlite_interrupt_inside_a_statement");
    }
    out.bump(&format!("faulted.resp.{}", resp.class()));
    if let Resp::Panic(p) = &resp {
        out.violations.push(viol(&["C05"], "fault.panic", format!("{} with {} panicked: {p}", req.short(), what)));
        return true;
    }
    // the commit point was reached iff a commit call made by this request took effect
    let commit_took_effect = log.iter().any(|(c, ok)| *c == Call::Commit && *ok) || sfired.iter().any(|(_, c, after)| *c == Call::Commit && *after);
    // probe the id a lost acknowledgement may have created
    let mut after = match w.take_projection() {
        Ok(p) => p,
        Err(e) => {
            out.violations.push(viol(&["C05"], "fault.unreadable_after", format!("state unreadable after {} with {}: {e:#}", req.short(), what)));
            return true;
        }
    };
    if let Some(Some(pc)) = after.get(&cid) {
        if !w.model.known_ids().contains(&pc.latest) {
            w.extra_ids.insert(pc.latest);
            if let Ok(p) = w.take_projection() {
                after = p;
            }
        }
    }
    let is_error = matches!(resp, Resp::Error(_));
    if !is_error {
        // A success (or protocol outcome) although a storage step failed.
        if matches!(inj, Inj::Storage(_)) {
            out.violations.push(viol(
                &["C05"],
                "fault.success_despite_failure",
                format!("{} answered {} although {} failed", req.short(), resp.short(), what),
            ));
            return true;
        }
        // VFS level: SQLite may absorb an error (e.g. a failed checkpoint after the commit); then the
        // answer must be exactly what the model allows and the state exactly the one after it
        let mm = w.model.apply(&req, &resp, t, t2, http);
        for m in mm {
            let mut v: crate::report::Violation = m.into();
            v.props.push("C05".into());
            v.msg = format!("[after absorbed {what}] {}", v.msg);
            out.violations.push(v);
        }
        if let Some((c, v, ..)) = &w.model.pending_corner {
            let accepted = after.get(c).cloned().flatten().and_then(|p| p.snap).map(|s| s.0 == *v).unwrap_or(false);
            w.model.resolve_corner(accepted);
        }
        let after = w.take_projection().unwrap_or(after);
        let mut vs = Vec::new();
        w.compare_state(&after, &mut vs);
        for mut v in vs {
            v.props.push("C05".into());
            v.oracle = "fault.success_without_effect".into();
            v.msg = format!("{} answered {} after {} but the state is not the one after the request: {}", req.short(), resp.short(), what, v.msg);
            out.violations.push(v);
        }
        out.bump("probe.vfs_fault_absorbed_request_succeeded");
        w.proj = after;
        return true;
    }
    // an error response: nothing changed, or (only when the commit point was reached) exactly the
    // state after the request
    let mut tolerant_before = before.clone();
    let mut tolerant_after = after.clone();
    if http && matches!(req, Req::AddVersion { .. }) && model_before.client(&cid).is_none() {
        // the handler's create-client step may have been committed before the failing step
        crate::world::identify_empty(&mut tolerant_before);
        crate::world::identify_empty(&mut tolerant_after);
        w.tolerate_empty_clients = true;
    }
    if proj_diff(&tolerant_before, &tolerant_after).is_none() {
        out.bump("probe.error_and_state_unchanged");
        if w.tolerate_empty_clients && matches!(after.get(&cid), Some(Some(_))) && w.model.client(&cid).is_none() {
            // the create-client step of the handler was committed before the failing step
            w.model.clients.entry(cid).or_default().exists = true;
            out.bump("probe.client_created_then_request_failed");
        }
        w.proj = after;
        return true;
    }
    // state changed: must be exactly "after"
    let may_be_after = match inj {
        Inj::Storage(_) | Inj::Storm(..) => commit_took_effect,
        Inj::Vfs(_) | Inj::Interrupt(_) => true,
    };
    let mut cand = model_before.clone();
    let applied_ok = match &req {
        Req::AddVersion { parent, .. } => {
            let latest = after.get(&cid).cloned().flatten().map(|p| p.latest).unwrap_or_default();
            // bind the id from the stored state; the urgency in the lost answer is unknown
            let exists_or_http = cand.client(&cid).is_some() || http;
            let mut ok = false;
            if exists_or_http && !latest.is_nil() {
                for urg in [Urg::None, Urg::Low, Urg::High] {
                    let mut c2 = cand.clone();
                    let mm = c2.apply(&req, &Resp::AvOk { id: latest, urg }, t, t2, http);
                    if mm.is_empty() {
                        cand = c2;
                        ok = true;
                        break;
                    }
                }
            }
            let _ = parent;
            ok
        }
        Req::AddSnapshot { c, v, .. } => {
            let dec = cand.snapshot_decision(c, v);
            let mm = cand.apply(&req, &Resp::AsOk, t, t2, http);
            if cand.pending_corner.is_some() {
                cand.resolve_corner(true);
            }
            mm.is_empty() && dec != SnapDecision::Decline
        }
        Req::CreateClient { .. } => cand.apply(&req, &Resp::Created, t, t2, http).is_empty(),
        _ => false,
    };
    let saved = std::mem::replace(&mut w.model, cand);
    let mut vs = Vec::new();
    if applied_ok {
        // the candidate model knows more ids (the quoted parent, the bound version id)
        if let Ok(p) = w.take_projection() {
            after = p;
        }
        w.compare_state(&after, &mut vs);
    }
    if applied_ok && vs.is_empty() && may_be_after {
        out.bump("probe.commit_reported_failed_but_durable");
        w.proj = after;
        return true;
    }
    // neither before nor after (or "after" without having reached the commit point)
    w.model = saved;
    let d = proj_diff(&before, &after).unwrap_or_default();
    if applied_ok && vs.is_empty() && !may_be_after {
        out.violations.push(viol(
            &["C05"],
            "fault.effect_without_commit",
            format!("{} failed with {} before any commit took effect, yet the request's effect is stored: {d}", req.short(), what),
        ));
    } else {
        out.violations.push(viol(
            &["C05"],
            "fault.partial_effect",
            format!("{} failed with {} and left a state that is neither the one before nor the one after the request: {d}{}", req.short(), what, vs.first().map(|v| format!(" / vs after: {}", v.msg)).unwrap_or_default()),
        ));
    }
    true
}

pub fn exec(plan: &FaultPlan) -> RunOut {
    // storage-call faults are injected by the wrapper storage
    crate::world::set_raw_mode(1);
    let out = exec_wrapped(plan);
    crate::world::set_raw_mode(0);
    out
}

fn exec_wrapped(plan: &FaultPlan) -> RunOut {
    let mut out = RunOut::default();
    crate::world::begin_run(plan.seed, plan.start_us);
    let mut main = match World::new(plan.seed, Backend::Sqlite, plan.entry, plan.page_size, plan.n_clients, plan.cfg, None) {
        Ok(w) => w,
        Err(e) => {
            out.harness_error = Some(format!("world setup failed: {e:#}"));
            return out;
        }
    };
    let main_dir = main.store.dir.clone().unwrap();
    let _foreign = if plan.foreign_conn {
        out.bump("cfg.foreign_connection_held");
        rusqlite::Connection::open(main_dir.join(DB_FILE)).ok().map(|c| {
            // make it a real reader of the WAL-mode database
            let _ = c.query_row("SELECT count(*) FROM sqlite_master", [], |_| Ok(()));
            c
        })
    } else {
        None
    };
    let mut sel = Rng::stream(plan.seed, "fault");
    let mut shape = Digest::default();
    let mut req_index = 0u32;
    let mut sample_trace: Vec<String> = Vec::new();
    for (oi, op) in plan.ops.iter().enumerate() {
        if crate::report::should_stop(&out) {
            break;
        }
        let is_req = ops::concretise(plan.seed, &main.model, plan.n_clients, op).is_some();
        if !is_req {
            main.step(op, &mut out);
            continue;
        }
        if let Op::Create { c } = op {
            if main.model.client(&ops::client_id(plan.seed, *c)).is_some() {
                continue;
            }
        }
        // enumerate the injections for this request: first a fault-free dry run on a copy to count calls
        let snap_model = main.model.clone();
        let dry_dir = fresh_dir("dry");
        let mut injections: Vec<Inj> = Vec::new();
        if copy_dir(&main_dir, &dry_dir).is_ok() {
            if let Ok(mut w) = World::attach(plan.seed, &dry_dir, plan.entry, plan.n_clients, plan.cfg, snap_model.clone()) {
                let _fc = if plan.foreign_conn { rusqlite::Connection::open(dry_dir.join(DB_FILE)).ok() } else { None };
                if let Some(req) = ops::concretise(plan.seed, &w.model, plan.n_clients, op) {
                    vfs::begin_window(None);
                    vfs::begin_interrupt_window(None);
                    let mut side = RunOut::default();
                    let _ = w.issue(&req, &Chunking::Whole, &mut side);
                    let counts = vfs::window_counts();
                    let (progress_calls, _) = vfs::end_interrupt_window();
                    vfs::end_window();
                    let log = w.inst.ctl.take_log();
                    let ncalls = log.iter().filter(|(c, _)| *c != Call::Drop).count() as u32;
                    match plan.layer {
                        FaultLayer::StorageCalls => {
                            for i in 0..ncalls {
                                for after in [false, true] {
                                    injections.push(Inj::Storage(vec![StorageFault { index: i, after }]));
                                }
                            }
                            if ncalls >= 1 {
                                // the first storage call of the request (the transaction begin) fails many times in a row
                                let n = [3u32, 70, 140][(crate::rng::mix(&[plan.seed, req_index as u64, 0x5702]) % 3) as usize];
                                injections.push(Inj::Storm(StorageFault { index: 0, after: false }, n));
                            }
                            for _ in 0..plan.doubles {
                                if ncalls >= 2 {
                                    let a = sel.below(ncalls as u64) as u32;
                                    let b = sel.below(ncalls as u64) as u32;
                                    if a != b {
                                        injections.push(Inj::Storage(vec![
                                            StorageFault { index: a.min(b), after: sel.chance(1, 2) },
                                            StorageFault { index: a.max(b), after: sel.chance(1, 2) },
                                        ]));
                                    }
                                }
                            }
                        }
                        FaultLayer::Vfs => {
                            // statement-level interrupts: every progress callback of the request, sampled down to 24
                            let stride = (progress_calls / 24).max(1);
                            let off = sel.below(stride);
                            let mut k = off;
                            while k < progress_calls {
                                injections.push(Inj::Interrupt(k));
                                k += stride;
                            }
                            for kind in vfs::ALL_FAULTS {
                                let n = counts.get(&(kind.applies_to() as u8)).copied().unwrap_or(0);
                                for nth in 0..n {
                                    injections.push(Inj::Vfs(VfsFault { kind: *kind, nth, sticky: 0 }));
                                }
                                if n > 0 && matches!(kind, FaultKind::WriteFull | FaultKind::WriteIoErr | FaultKind::SyncIoErr | FaultKind::LockBusy | FaultKind::ShmLockBusy) {
                                    // a window of failures (disk stays full for a while)
                                    let nth = sel.below(n as u64) as u32;
                                    injections.push(Inj::Vfs(VfsFault { kind: *kind, nth, sticky: 1 + sel.below(6) as u32 }));
                                }
                            }
                        }
                    }
                }
            }
        }
        let _ = std::fs::remove_dir_all(&dry_dir);
        // VFS enumeration can be large: sample it down (all kinds stay represented)
        if plan.layer == FaultLayer::Vfs && injections.len() > 60 {
            let mut keep = Vec::new();
            let stride = injections.len() as f64 / 60.0;
            let off = sel.below(stride.ceil() as u64) as f64;
            let mut x = off;
            while (x as usize) < injections.len() {
                keep.push(injections[x as usize].clone());
                x += stride;
            }
            injections = keep;
        }
        for (fi, inj) in injections.iter().enumerate() {
            if let Some((r, f)) = plan.only {
                if r != req_index || f != fi as u32 {
                    continue;
                }
            }
            if crate::report::should_stop(&out) {
                break;
            }
            let dir = fresh_dir("flt");
            if copy_dir(&main_dir, &dir).is_err() {
                continue;
            }
            let t_save = sched::now_us();
            {
                let mut w = match World::attach(plan.seed, &dir, plan.entry, plan.n_clients, plan.cfg, snap_model.clone()) {
                    Ok(w) => w,
                    Err(e) => {
                        out.harness_error = Some(format!("attach failed: {e:#}"));
                        break;
                    }
                };
                let _fc = if plan.foreign_conn { rusqlite::Connection::open(dir.join(DB_FILE)).ok() } else { None };
                let nv = out.violations.len();
                // every injection runs on a fresh server object; in half of them the server first serves
                // an ordinary request of the same client, so that in-process state (caches, fast paths)
                // exists when the fault strikes
                if fi % 2 == 1 {
                    let c = op_c(op);
                    if w.model.client(&ops::client_id(plan.seed, c)).is_some() || plan.entry == Entry::Http {
                        let warm = Op::AddVersion { c, parent: ops::IdArg::Latest, pay: ops::Pay { class: 2, len: 11, tag: 9_700_000 + fi as u32 }, ch: Chunking::Whole };
                        w.step(&warm, &mut out);
                        out.bump("probe.server_warmed_up_before_fault");
                    }
                }
                let fired = faulted_request(&mut w, op, inj, &mut out);
                if fired {
                    out.bump("probe.fault_injections");
                    shape.add_str(&format!("{:?}", inj));
                    shape.add_str(ops_kind(op));
                    out.cases.push(crate::rng::mix(&[crate::rng::tag(&format!("{:?}", inj)), crate::rng::tag(ops_kind(op)), w.model.client(&ops::client_id(plan.seed, op_c(op))).map(|c| c.versions.len().min(6)).unwrap_or(9) as u64]));
                    if sample_trace.len() < 10 {
                        sample_trace.push(format!("req#{req_index} {} + {:?} => {}", op.short(), inj, w.trace.last().cloned().unwrap_or_default()));
                    }
                    if out.violations.len() == nv {
                        // later requests are served normally, and the first waits for no lock
                        let t0 = sched::now_us();
                        let mut first = true;
                        for next in plan.ops.iter().skip(oi + 1).take(3) {
                            w.step(next, &mut out);
                            if first {
                                first = false;
                                if sched::now_us() - t0 > 0 && !matches!(next, Op::Advance { .. }) {
                                    out.violations.push(viol(&["C05"], "fault.lock_leaked", format!("the request after {} + {:?} had to wait {} µs for a lock", op.short(), inj, sched::now_us() - t0)));
                                }
                            }
                        }
                        // and the chain can still be extended at its true latest version
                        let c = op_c(op);
                        if w.model.client(&ops::client_id(plan.seed, c)).is_some() {
                            let ext = Op::AddVersion { c, parent: ops::IdArg::Latest, pay: ops::Pay { class: 3, len: 9, tag: 9_800_000 + fi as u32 }, ch: Chunking::Whole };
                            if let Some(s) = w.step(&ext, &mut out) {
                                if !matches!(s.resp, Resp::AvOk { .. }) && out.violations.len() == nv {
                                    out.violations.push(viol(&["C05"], "fault.later_request_not_served", format!("after {} + {:?} an AddVersion on the latest version was answered {}", op.short(), inj, s.resp.short())));
                                }
                            }
                        }
                        w.full_check(&mut out);
                    }
                    for v in out.violations[nv..].iter_mut() {
                        if !v.props.iter().any(|p| p == "C05") {
                            v.props.push("C05".into());
                        }
                        v.msg = format!("[request #{req_index}, injection #{fi} {:?}] {}", inj, v.msg);
                    }
                    if out.violations.len() > nv {
                        LAST_FAIL.with(|l| l.set(Some((req_index, fi as u32))));
                    }
                }
            }
            sched::set_now_us(t_save);
            let _ = std::fs::remove_dir_all(&dir);
        }
        // advance the main world fault-free
        main.step(op, &mut out);
        req_index += 1;
    }
    if !crate::report::should_stop(&out) {
        main.full_check(&mut out);
    }
    out.digest = main.digest.0 ^ shape.0;
    out.sim_us = (sched::now_us() - plan.start_us).abs();
    out.bump(&format!("cfg.entry.{:?}", plan.entry));
    out.bump(&format!("cfg.layer.{:?}", plan.layer));
    out.sample = Some(serde_json::json!({
        "scenario": "fault", "seed": plan.seed, "entry": format!("{:?}", plan.entry), "layer": format!("{:?}", plan.layer),
        "foreign_connection": plan.foreign_conn,
        "history": plan.ops.iter().take(12).map(|o| o.short()).collect::<Vec<_>>(),
        "injections": sample_trace,
    }));
    out
}

thread_local! {
    pub static LAST_FAIL: std::cell::Cell<Option<(u32, u32)>> = const { std::cell::Cell::new(None) };
}

fn ops_kind(op: &Op) -> &'static str {
    match op {
        Op::Create { .. } => "create",
        Op::AddVersion { .. } => "av",
        Op::GetChild { .. } => "gc",
        Op::AddSnapshot { .. } => "as",
        Op::GetSnapshot { .. } => "gs",
        _ => "-",
    }
}

fn op_c(op: &Op) -> u8 {
    match op {
        Op::Create { c } | Op::AddVersion { c, .. } | Op::GetChild { c, .. } | Op::AddSnapshot { c, .. } | Op::GetSnapshot { c } | Op::SeedSnap { c, .. } => *c,
        _ => 0,
    }
}

pub fn shrink(plan: &FaultPlan) -> Vec<FaultPlan> {
    let mut c = Vec::new();
    // first pin the failing (request, injection) pair
    if plan.only.is_none() {
        let _ = exec(plan);
        if let Some(o) = LAST_FAIL.with(|l| l.get()) {
            let mut p = plan.clone();
            p.only = Some(o);
            c.push(p);
        }
        return c;
    }
    // drop operations after the failing request's follow-ups, and before it (adjusting the index)
    let (r, f) = plan.only.unwrap();
    // map request index to op index
    let mut idx = 0u32;
    let mut req_op = plan.ops.len();
    {
        // approximate: count request-like ops
        for (i, op) in plan.ops.iter().enumerate() {
            if !matches!(op, Op::Advance { .. } | Op::Restart | Op::SeedSnap { .. }) {
                if idx == r {
                    req_op = i;
                    break;
                }
                idx += 1;
            }
        }
    }
    if req_op + 4 < plan.ops.len() {
        let mut p = plan.clone();
        p.ops.truncate(req_op + 4);
        c.push(p);
    }
    for i in 0..req_op.min(plan.ops.len()) {
        let mut p = plan.clone();
        let removed = p.ops.remove(i);
        if !matches!(removed, Op::Advance { .. } | Op::Restart | Op::SeedSnap { .. }) && r > 0 {
            p.only = Some((r - 1, f));
        }
        c.push(p);
    }
    if plan.foreign_conn {
        let mut p = plan.clone();
        p.foreign_conn = false;
        c.push(p);
    }
    if plan.page_size.is_some() {
        let mut p = plan.clone();
        p.page_size = None;
        c.push(p);
    }
    c
}

#[allow(dead_code)]
fn _unused(_: &Model, _: &str) -> String {
    sid(&uuid::Uuid::nil())
}
