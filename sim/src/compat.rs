//! S8 `compat` (C19): a committed corpus of data directories written by the pinned tree (clean
//! shutdowns, leftover write-ahead logs, process-crash and power-loss images), each with its
//! expected logical content. The current tree opens each one, must serve exactly that history,
//! and must be able to extend it.

use crate::http::Chunking;
use crate::model::{Cfg, Id, MClient, MSnap, MVersion, Model, Resp};
use crate::ops::{self, IdArg, Op, Pay};
use crate::report::{viol, RunOut};
use crate::rng::{Digest, Rng};
use crate::sched;
use crate::seq::{self, Focus, GenParams, World};
use crate::vfs;
use crate::world::{fresh_dir, Backend, Entry, DB_FILE};
use serde::{Deserialize, Serialize};
use std::collections::BTreeMap;
use std::path::{Path, PathBuf};

#[derive(Clone, Debug, Serialize, Deserialize)]
pub struct FxVersion {
    pub id: Id,
    pub parent: Id,
    pub pay: Pay,
    pub fnv: String,
}

#[derive(Clone, Debug, Serialize, Deserialize)]
pub struct FxSnap {
    pub version: Id,
    pub pay: Pay,
    pub fnv: String,
    pub ts_lo: i64,
    pub ts_hi: i64,
    pub since: u32,
    pub pos: usize,
}

#[derive(Clone, Debug, Serialize, Deserialize)]
pub struct FxClient {
    pub id: Id,
    pub base: Option<Id>,
    pub versions: Vec<FxVersion>,
    pub snap: Option<FxSnap>,
}

#[derive(Clone, Debug, Serialize, Deserialize)]
pub struct FxState {
    pub clients: Vec<FxClient>,
}

#[derive(Clone, Debug, Serialize, Deserialize)]
pub struct Expected {
    pub name: String,
    pub kind: String,
    pub produced_by: String,
    pub seed: u64,
    pub n_clients: u8,
    pub page_size: Option<u32>,
    pub cfg: Cfg,
    /// simulated time (µs) at which the fixture was written
    pub now_us: i64,
    /// the logical contents that are acceptable (two for an image taken while a request was in flight)
    pub allowed: Vec<FxState>,
    pub probe_ids: Vec<Id>,
    pub files: Vec<String>,
}

fn dump_model(m: &Model, pays: &BTreeMap<u64, Pay>) -> FxState {
    let mut clients = Vec::new();
    for (id, cl) in &m.clients {
        if !cl.exists {
            continue;
        }
        clients.push(FxClient {
            id: *id,
            base: cl.base,
            versions: cl
                .versions
                .iter()
                .map(|v| FxVersion {
                    id: v.id,
                    parent: v.parent,
                    pay: pays.get(&crate::rng::fnv(&v.data)).cloned().unwrap_or(Pay { class: 255, len: v.data.len() as u32, tag: 0 }),
                    fnv: format!("{:016x}", crate::rng::fnv(&v.data)),
                })
                .collect(),
            snap: cl.snap.as_ref().map(|s| FxSnap {
                version: s.version,
                pay: pays.get(&crate::rng::fnv(&s.data)).cloned().unwrap_or(Pay { class: 255, len: s.data.len() as u32, tag: 0 }),
                fnv: format!("{:016x}", crate::rng::fnv(&s.data)),
                ts_lo: s.ts_lo,
                ts_hi: s.ts_hi,
                since: s.since,
                pos: s.pos,
            }),
        });
    }
    FxState { clients }
}

fn load_model(seed: u64, cfg: Cfg, st: &FxState) -> Result<Model, String> {
    let mut m = Model::new(cfg);
    for c in &st.clients {
        let mut cl = MClient { exists: true, base: c.base, versions: vec![], snap: None };
        for v in &c.versions {
            let data = ops::payload(seed, &v.pay);
            if format!("{:016x}", crate::rng::fnv(&data)) != v.fnv {
                return Err(format!("payload generator drifted for version {}", v.id));
            }
            m.issued.insert(v.id);
            m.quoted.insert(v.parent);
            cl.versions.push(MVersion { id: v.id, parent: v.parent, data });
        }
        if let Some(s) = &c.snap {
            let data = ops::payload(seed, &s.pay);
            if format!("{:016x}", crate::rng::fnv(&data)) != s.fnv {
                return Err(format!("payload generator drifted for snapshot {}", s.version));
            }
            cl.snap = Some(MSnap { version: s.version, data, ts_lo: s.ts_lo, ts_hi: s.ts_hi, since: s.since, pos: s.pos });
        }
        m.clients.insert(c.id, cl);
    }
    Ok(m)
}

pub fn corpus_dir() -> PathBuf {
    PathBuf::from(std::env::var("VERIF_HOME").unwrap_or_else(|_| "/verif".into())).join("corpus")
}

pub fn list_fixtures() -> Vec<PathBuf> {
    let mut v: Vec<PathBuf> = std::fs::read_dir(corpus_dir())
        .map(|rd| rd.flatten().map(|e| e.path()).filter(|p| p.join("expected.json").exists()).collect())
        .unwrap_or_default();
    v.sort();
    v
}

// ---------------------------------------------------------------------------------------------
// corpus generation (run once, at the pinned tree; see tools/gen_corpus.sh)

fn pays_of(seed: u64, ops_list: &[Op]) -> BTreeMap<u64, Pay> {
    let mut m = BTreeMap::new();
    for op in ops_list {
        if let Op::AddVersion { pay, .. } | Op::AddSnapshot { pay, .. } = op {
            m.insert(crate::rng::fnv(&ops::payload(seed, pay)), pay.clone());
        }
    }
    m
}

fn write_fixture(out: &Path, name: &str, kind: &str, files: &[(String, Vec<u8>)], exp: &Expected) -> std::io::Result<()> {
    let d = out.join(name);
    let _ = std::fs::remove_dir_all(&d);
    std::fs::create_dir_all(d.join("data"))?;
    for (n, b) in files {
        std::fs::write(d.join("data").join(n), b)?;
    }
    let mut e = exp.clone();
    e.name = name.to_string();
    e.kind = kind.to_string();
    e.files = files.iter().map(|f| f.0.clone()).collect();
    std::fs::write(d.join("expected.json"), serde_json::to_string_pretty(&e).unwrap())
}

fn read_dir_files(dir: &Path) -> Vec<(String, Vec<u8>)> {
    let mut v = Vec::new();
    if let Ok(rd) = std::fs::read_dir(dir) {
        for e in rd.flatten() {
            let n = e.file_name().to_string_lossy().to_string();
            if n.ends_with("-shm") {
                continue;
            }
            if let Ok(b) = std::fs::read(e.path()) {
                v.push((n, b));
            }
        }
    }
    v.sort();
    v
}

pub fn gen_corpus(out: &Path, produced_by: &str) -> Result<usize, String> {
    std::fs::create_dir_all(out).map_err(|e| e.to_string())?;
    let mut n = 0;
    let page_sizes = [None, Some(1024u32), Some(8192)];
    for i in 0..14u64 {
        let seed = crate::rng::mix(&[0xC0_2B05, i]);
        let mut r = Rng::stream(seed, "plan");
        let entry = if i % 2 == 0 { Entry::Http } else { Entry::Lib };
        let page_size = page_sizes[(i % 3) as usize];
        let n_clients = 1 + (i % 4) as u8;
        let cfg = Cfg { days: 14, versions: if i % 3 == 0 { 3 } else { 100 } };
        let big = i % 5 == 0;
        let p = GenParams {
            backend: Backend::Sqlite,
            entry,
            focus: if i % 2 == 0 { Focus::Snapshots } else { Focus::General },
            max_ops: 26,
            max_payload: if big { 180_000 } else { 9_000 },
            whole_sec: false,
            allow_restart: false,
            allow_seed: false,
        foreign_lock_pct: 0,
        allow_empty_payload: false,
        };
        let mut ops_list = seq::gen_ops(&mut r, &p, n_clients, &cfg, page_size.unwrap_or(4096));
        // make sure there is real content: every client gets a few versions and a snapshot
        for c in 0..n_clients {
            for k in 0..3u32 {
                ops_list.push(Op::AddVersion { c, parent: IdArg::Latest, pay: Pay { class: (c as u32 + k) as u8, len: if big && k == 1 { 120_000 } else { 40 + 300 * k }, tag: 7_000_000 + c as u32 * 10 + k }, ch: Chunking::Whole });
            }
            ops_list.insert(0, Op::Create { c });
            if c % 2 == 0 {
                ops_list.push(Op::AddSnapshot { c, v: IdArg::Back(0), pay: Pay { class: 2, len: if big { 50_000 } else { 700 }, tag: 7_100_000 + c as u32 }, ch: Chunking::Whole });
                ops_list.push(Op::AddVersion { c, parent: IdArg::Latest, pay: Pay { class: 5, len: 17, tag: 7_200_000 + c as u32 }, ch: Chunking::Whole });
            }
        }
        ops_list.retain(|o| !matches!(o, Op::Restart | Op::SeedSnap { .. }));
        let pays = pays_of(seed, &ops_list);
        let start_us = 1_000_000 * (i as i64) * 3600;
        // 1. clean shutdown and 2. leftover write-ahead log (a second connection held open)
        for leftover in [false, true] {
            crate::world::begin_run(seed, start_us);
            crate::world::set_numeric_ids(false);
            let mut w = World::new(seed, Backend::Sqlite, entry, page_size, n_clients, cfg, None).map_err(|e| format!("{e:#}"))?;
            let dir = w.store.dir.clone().unwrap();
            let foreign = if leftover {
                let c = rusqlite::Connection::open(dir.join(DB_FILE)).map_err(|e| e.to_string())?;
                let _ = c.query_row("SELECT count(*) FROM sqlite_master", [], |_| Ok(()));
                Some(c)
            } else {
                None
            };
            let mut o = RunOut::default();
            for op in &ops_list {
                w.step(op, &mut o);
            }
            w.full_check(&mut o);
            if !o.violations.is_empty() {
                return Err(format!("generator run violated an oracle: {:?}", o.violations[0]));
            }
            let files = read_dir_files(&dir);
            let exp = Expected {
                name: String::new(),
                kind: String::new(),
                produced_by: produced_by.to_string(),
                seed,
                n_clients,
                page_size,
                cfg,
                now_us: sched::now_us(),
                allowed: vec![dump_model(&w.model, &pays)],
                probe_ids: w.model.known_ids().into_iter().collect(),
                files: vec![],
            };
            let kind = if leftover { "leftover_wal" } else { "clean_shutdown" };
            if leftover && !files.iter().any(|f| f.0.ends_with("-wal") && !f.1.is_empty()) {
                return Err("expected a leftover WAL".into());
            }
            write_fixture(out, &format!("fx{:02}-{}", i, kind), kind, &files, &exp).map_err(|e| e.to_string())?;
            n += 1;
            drop(foreign);
        }
        // 3. crash images taken in the middle of the history
        if i % 2 == 0 {
            crate::world::begin_run(seed, start_us);
            crate::world::set_numeric_ids(false);
            let mut w = World::new(seed, Backend::Sqlite, entry, page_size, n_clients, cfg, None).map_err(|e| format!("{e:#}"))?;
            let dir = w.store.dir.clone().unwrap();
            let foreign = if i % 4 == 0 { rusqlite::Connection::open(dir.join(DB_FILE)).ok() } else { None };
            if let Some(c) = &foreign {
                let _ = c.query_row("SELECT count(*) FROM sqlite_master", [], |_| Ok(()));
            }
            vfs::track(&dir);
            vfs::mark_all_durable();
            vfs::set_capture(true, 2, false, 512 << 20);
            let mut models = vec![w.model.clone()];
            let mut o = RunOut::default();
            let mut ri = 0i64;
            for op in &ops_list {
                if ops::concretise(seed, &w.model, n_clients, op).is_none() && !matches!(op, Op::Resend) {
                    w.step(op, &mut o);
                    continue;
                }
                if let Op::Create { c } = op {
                    if w.model.client(&ops::client_id(seed, *c)).is_some() {
                        continue;
                    }
                }
                vfs::set_cur_req(2 * ri);
                w.step(op, &mut o);
                vfs::set_cur_req(2 * ri + 1);
                models.push(w.model.clone());
                ri += 1;
            }
            vfs::set_capture(false, 0, false, 0);
            let images = vfs::take_images();
            let probe: Vec<Id> = w.model.known_ids().into_iter().collect();
            let now = sched::now_us();
            drop(foreign);
            drop(w);
            // pick images late in the history: one process crash, one power loss with a torn/dropped tail
            let late: Vec<&vfs::Image> = images.iter().filter(|im| (im.req / 2) as usize >= models.len().saturating_sub(6)).collect();
            let mut picks: Vec<&vfs::Image> = Vec::new();
            if let Some(p) = late.iter().find(|im| im.kind == "process_crash" && im.files.iter().any(|f| f.0.ends_with("-wal") && f.1.len() > 32)) {
                picks.push(p);
            }
            if let Some(p) = late.iter().rev().find(|im| im.kind == "power_loss" && (im.detail.contains("torn1") || im.detail.contains("dropped1"))) {
                picks.push(p);
            }
            for (k, im) in picks.iter().enumerate() {
                let r = (im.req / 2) as usize;
                let allowed = if im.req % 2 == 0 && r + 1 < models.len() { vec![dump_model(&models[r], &pays), dump_model(&models[r + 1], &pays)] } else { vec![dump_model(&models[(r + 1).min(models.len() - 1)], &pays)] };
                let exp = Expected { name: String::new(), kind: String::new(), produced_by: produced_by.to_string(), seed, n_clients, page_size, cfg, now_us: now, allowed, probe_ids: probe.clone(), files: vec![] };
                let kind = if im.kind == "process_crash" { "process_crash_image" } else { "power_loss_image" };
                write_fixture(out, &format!("fx{:02}-{}-{}", i, kind, k), kind, &im.files, &exp).map_err(|e| e.to_string())?;
                n += 1;
            }
        }
    }
    crate::world::cleanup_scratch();
    Ok(n)
}

// ---------------------------------------------------------------------------------------------
// the check

#[derive(Clone, Debug, Serialize, Deserialize)]
pub struct CompatPlan {
    pub seed: u64,
    pub fixture: String,
    pub entry: Entry,
    pub restart_midway: bool,
}

pub fn gen_plan(seed: u64, index: u64) -> CompatPlan {
    let fx = list_fixtures();
    let mut r = Rng::stream(seed, "plan");
    let fixture = if fx.is_empty() { String::new() } else { fx[(index % fx.len() as u64) as usize].file_name().unwrap().to_string_lossy().to_string() };
    CompatPlan { seed, fixture, entry: if r.chance(1, 2) { Entry::Lib } else { Entry::Http }, restart_midway: r.chance(1, 2) }
}

pub fn exec(plan: &CompatPlan) -> RunOut {
    let mut out = RunOut::default();
    let fdir = corpus_dir().join(&plan.fixture);
    let exp: Expected = match std::fs::read_to_string(fdir.join("expected.json")).map_err(|e| e.to_string()).and_then(|s| serde_json::from_str(&s).map_err(|e| e.to_string())) {
        Ok(e) => e,
        Err(e) => {
            out.harness_error = Some(format!("fixture {} unreadable: {e}", plan.fixture));
            return out;
        }
    };
    crate::world::begin_run(plan.seed, exp.now_us + 1_000_000);
    // the corpus was written with plain ids
    crate::world::set_numeric_ids(false);
    let dir = fresh_dir("compat");
    for f in &exp.files {
        if let Err(e) = std::fs::copy(fdir.join("data").join(f), dir.join(f)) {
            out.harness_error = Some(format!("copying fixture failed: {e}"));
            return out;
        }
    }
    let label = format!("fixture {} ({}, written by {})", exp.name, exp.kind, exp.produced_by);
    // an upgrade is a new process: let a fresh process open the directory first
    if plan.seed % 2 == 0 {
        out.bump("probe.fixture_first_opened_by_fresh_process");
        if !crate::world::first_open_in_fresh_process(&dir) {
            out.violations.push(viol(&["C19"], "compat.cannot_open", format!("{label}: a freshly started process of the current code cannot open it")));
            let _ = std::fs::remove_dir_all(&dir);
            return out;
        }
    }
    let mut matched: Option<World> = None;
    let mut why = String::new();
    for st in &exp.allowed {
        let m = match load_model(exp.seed, exp.cfg, st) {
            Ok(m) => m,
            Err(e) => {
                out.harness_error = Some(e);
                return out;
            }
        };
        match World::attach(exp.seed, &dir, plan.entry, exp.n_clients, exp.cfg, m) {
            Ok(mut w) => {
                w.extra_ids = exp.probe_ids.iter().cloned().collect();
                w.tolerate_empty_clients = exp.allowed.len() > 1;
                match w.take_projection() {
                    Ok(p) => {
                        let mut cmp = Vec::new();
                        w.compare_state(&p, &mut cmp);
                        if cmp.is_empty() {
                            w.proj = p;
                            matched = Some(w);
                            break;
                        }
                        why = cmp[0].msg.clone();
                    }
                    Err(e) => why = format!("stored state unreadable: {e:#}"),
                }
            }
            Err(e) => {
                out.violations.push(viol(&["C19"], "compat.cannot_open", format!("{label}: does not open with the current code: {e:#}")));
                let _ = std::fs::remove_dir_all(&dir);
                return out;
            }
        }
    }
    let mut w = match matched {
        Some(w) => w,
        None => {
            out.violations.push(viol(&["C19"], "compat.content_differs", format!("{label}: the current code does not serve the recorded history: {why}")));
            let _ = std::fs::remove_dir_all(&dir);
            return out;
        }
    };
    out.bump(&format!("probe.fixture_kind.{}", exp.kind));
    let tag_all = |out: &mut RunOut, from: usize, what: &str| {
        for v in out.violations[from..].iter_mut() {
            if !v.props.iter().any(|p| p == "C19") {
                v.props.push("C19".into());
            }
            v.oracle = format!("compat.{}", v.oracle);
            v.msg = format!("{label}: {what}: {}", v.msg);
        }
    };
    // serves exactly the history: every chain walks, every snapshot is returned
    let n0 = out.violations.len();
    w.full_check(&mut out);
    tag_all(&mut out, n0, "serving the recorded history");
    // new versions can be appended to the existing chains, and a snapshot stored
    let mut r = Rng::stream(plan.seed, "append");
    let n1 = out.violations.len();
    for round in 0..2 {
        for c in 0..exp.n_clients {
            let cid = ops::client_id(exp.seed, c);
            if w.model.client(&cid).is_none() {
                continue;
            }
            let pay = Pay { class: r.below(ops::N_CLASSES as u64) as u8, len: r.range(1, 3000) as u32, tag: 8_000_000 + round * 100 + c as u32 };
            let s = w.step(&Op::AddVersion { c, parent: IdArg::Latest, pay, ch: Chunking::Whole }, &mut out);
            if let Some(s) = s {
                if !matches!(s.resp, Resp::AvOk { .. }) {
                    out.violations.push(viol(&["C19"], "append_refused", format!("appending to the existing chain of client c{c} was answered {}", s.resp.short())));
                }
            }
            if round == 1 {
                let pay = Pay { class: 2, len: r.range(1, 2000) as u32, tag: 8_100_000 + c as u32 };
                w.step(&Op::AddSnapshot { c, v: IdArg::Latest, pay, ch: Chunking::Whole }, &mut out);
                w.step(&Op::GetSnapshot { c }, &mut out);
            }
        }
        if round == 0 && plan.restart_midway {
            w.step(&Op::Restart, &mut out);
        }
    }
    w.full_check(&mut out);
    tag_all(&mut out, n1, "after appending");
    let mut d = Digest::default();
    d.add_str(&plan.fixture);
    d.add_u64(w.digest.0);
    out.digest = d.0;
    out.cases.push(crate::rng::mix(&[crate::rng::tag(&plan.fixture), plan.entry as u64, plan.restart_midway as u64]));
    out.sim_us = 1_000_000;
    out.sample = Some(serde_json::json!({
        "scenario": "compat", "fixture": exp.name, "kind": exp.kind, "produced_by": exp.produced_by,
        "clients": exp.n_clients, "page_size": exp.page_size, "files": exp.files,
        "versions_per_client": exp.allowed.last().map(|s| s.clients.iter().map(|c| c.versions.len()).collect::<Vec<_>>()),
        "entry": format!("{:?}", plan.entry),
    }));
    drop(w);
    let _ = std::fs::remove_dir_all(&dir);
    out
}
