//! The stepping world shared by the sequential scenarios (S1 seq, S2 twin, S6 wire, S7 iso), and
//! the S1 scenario itself: one server, a sequential symbolic history, the model and the full
//! battery of per-step oracles.

use crate::http::{call_http, Chunking, HttpApp};
use crate::model::{sid, Cfg, Id, Model, Req, Resp, SnapDecision};
use crate::ops::{self, client_id, concretise, IdArg, Op, Pay};
use crate::report::{viol, RunOut, Violation};
use crate::rng::{Digest, Rng};
use crate::sched;
use crate::world::{
    dt_from_us, project, proj_diff, Backend, Call, Entry, Instance, Projection, Store,
};
use serde::{Deserialize, Serialize};
use std::collections::{BTreeMap, HashSet};
use taskchampion_sync_server_core::Snapshot;
use uuid::Uuid;

pub const DAY_US: i64 = 86_400_000_000;

#[derive(Clone, Debug, Serialize, Deserialize)]
pub struct SeqPlan {
    pub seed: u64,
    pub backend: Backend,
    pub entry: Entry,
    pub page_size: Option<u32>,
    pub n_clients: u8,
    pub cfg: Cfg,
    pub start_us: i64,
    pub ops: Vec<Op>,
    pub walk_every: u8,
    /// re-read one random earlier version after every operation (C07 temporal oracle)
    pub audit: bool,
    /// server instances serving the history alternately (own storage object, own clock skew)
    #[serde(default)]
    pub instances: u8,
    #[serde(default)]
    pub skews_us: Vec<i64>,
    /// which instance serves operation i (empty = always the first)
    #[serde(default)]
    pub route: Vec<u8>,
}

pub struct World {
    pub seed: u64,
    pub n_clients: u8,
    pub cfg: Cfg,
    pub entry: Entry,
    pub store: Store,
    pub inst: Instance,
    pub app: Option<HttpApp>,
    pub allow: Option<HashSet<Uuid>>,
    pub model: Model,
    pub clients: Vec<Id>,
    pub proj: Projection,
    pub last_probe: Option<(Id, Id, &'static str)>,
    pub max_snap_pos: BTreeMap<Id, usize>,
    pub digest: Digest,
    pub trace: Vec<String>,
    pub steps: u64,
    pub t0: i64,
    /// explicit wire form for the next HTTP request (S6)
    pub wire_override: Option<crate::http::WireReq>,
    /// raw HTTP response of the last request
    pub last_raw: Option<crate::http::RawResp>,
    /// after an injected fault in the HTTP create-then-retry path, a client the model does not
    /// know may exist holding nothing (absent and empty are not distinguished then)
    pub tolerate_empty_clients: bool,
    /// storage-call faults for the next request (S5)
    pub next_faults: Vec<crate::world::StorageFault>,
    /// SQLite: the servers own concrete `SqliteStorage` objects (no wrapper storage)
    pub raw_inst: bool,
    /// ids to probe in projections besides those the model knows (e.g. an id whose response was lost)
    pub extra_ids: std::collections::BTreeSet<Id>,
    /// further server instances on the same storage (SQLite: own storage object on the same
    /// directory; in-memory: own `Server` over the shared storage), each with its own clock skew.
    /// The instance in `inst`/`app` is the one currently serving; `switch_to` swaps.
    /// C12 monotonicity, model-independent: per client (snapshot version, stored-at, age µs, versions since, urgency, targets) of the last accepted AddVersion
    pub mono: BTreeMap<Id, (Id, i64, i64, u32, crate::model::Urg, Cfg)>,
    /// the last upload (AddVersion / AddSnapshot) as sent, for verbatim retries
    pub last_upload: Option<(Req, Chunking)>,
    pub others: Vec<(Instance, Option<HttpApp>)>,
    pub cur_inst: usize,
    pub n_inst: usize,
    pub skews: Vec<i64>,
}

pub struct StepOut {
    pub req: Req,
    pub resp: Resp,
}

fn sec_of(us: i64) -> i64 {
    (sched::EPOCH_S as i128 * 1_000_000 + us as i128).div_euclid(1_000_000) as i64
}

impl World {
    pub fn new(
        seed: u64,
        backend: Backend,
        entry: Entry,
        page_size: Option<u32>,
        n_clients: u8,
        cfg: Cfg,
        allow: Option<HashSet<Uuid>>,
    ) -> anyhow::Result<World> {
        let store = Store::new(backend, page_size)?;
        let raw_inst = store.dir.is_some() && crate::world::raw_for(seed);
        let inst = match (&store.dir, raw_inst) {
            (Some(d), true) => Instance::new_sqlite_raw(d, cfg, allow.clone(), 0)?,
            _ => Instance::new(store.raw.clone(), cfg, allow.clone(), 0),
        };
        let app = match entry {
            Entry::Http => Some(HttpApp::new(&inst.web)),
            Entry::Lib => None,
        };
        let clients: Vec<Id> = (0..n_clients).map(|c| client_id(seed, c)).collect();
        let mut w = World {
            seed,
            n_clients,
            cfg,
            entry,
            store,
            inst,
            app,
            allow,
            model: Model::new(cfg),
            clients,
            proj: Projection::new(),
            last_probe: None,
            max_snap_pos: BTreeMap::new(),
            digest: Digest::default(),
            trace: Vec::new(),
            steps: 0,
            t0: sched::now_us(),
            wire_override: None,
            last_raw: None,
            tolerate_empty_clients: false,
            next_faults: Vec::new(),
            raw_inst,
            extra_ids: Default::default(),
            mono: BTreeMap::new(),
            last_upload: None,
            others: Vec::new(),
            cur_inst: 0,
            n_inst: 1,
            skews: vec![0],
        };
        w.proj = w.take_projection()?;
        Ok(w)
    }

    pub fn ids(&self) -> Vec<Id> {
        let mut s = self.model.known_ids();
        s.extend(self.extra_ids.iter().cloned());
        s.into_iter().collect()
    }

    /// A world on an existing data directory (SQLite), continuing from a given model state.
    pub fn attach(seed: u64, dir: &std::path::Path, entry: Entry, n_clients: u8, cfg: Cfg, model: Model) -> anyhow::Result<World> {
        let store = Store::open_dir(dir)?;
        let raw_inst = crate::world::raw_for(seed);
        let inst = if raw_inst { Instance::new_sqlite_raw(dir, cfg, None, 0)? } else { Instance::new(store.raw.clone(), cfg, None, 0) };
        let app = match entry {
            Entry::Http => Some(HttpApp::new(&inst.web)),
            Entry::Lib => None,
        };
        let clients: Vec<Id> = (0..n_clients).map(|c| client_id(seed, c)).collect();
        let mut w = World {
            seed,
            n_clients,
            cfg,
            entry,
            store,
            inst,
            app,
            allow: None,
            model,
            clients,
            proj: Projection::new(),
            last_probe: None,
            max_snap_pos: BTreeMap::new(),
            digest: Digest::default(),
            trace: Vec::new(),
            steps: 0,
            t0: sched::now_us(),
            wire_override: None,
            last_raw: None,
            tolerate_empty_clients: false,
            next_faults: Vec::new(),
            raw_inst,
            extra_ids: Default::default(),
            mono: BTreeMap::new(),
            last_upload: None,
            others: Vec::new(),
            cur_inst: 0,
            n_inst: 1,
            skews: vec![0],
        };
        w.proj = w.take_projection()?;
        Ok(w)
    }

    pub fn take_projection(&self) -> anyhow::Result<Projection> {
        // the harness's own reads are not subject to the foreign-writer fault
        crate::vfs::foreign_release_now();
        project(&self.store.raw, &self.clients, &self.ids())
    }

    fn make_instance(&self, idx: usize, allow: Option<HashSet<Uuid>>, cfg: Cfg) -> anyhow::Result<(Instance, Option<HttpApp>)> {
        let raw: std::sync::Arc<dyn taskchampion_sync_server_core::Storage> = match (&self.store.dir, idx) {
            (Some(d), i) if i > 0 => std::sync::Arc::new(taskchampion_sync_server_storage_sqlite::SqliteStorage::new(d)?),
            _ => self.store.raw.clone(),
        };
        let skew = self.skews.get(idx).copied().unwrap_or(0);
        let inst = match (&self.store.dir, self.raw_inst) {
            (Some(d), true) => Instance::new_sqlite_raw(d, cfg, allow, skew)?,
            _ => Instance::new(raw, cfg, allow, skew),
        };
        let app = if self.entry == Entry::Http { Some(HttpApp::new(&inst.web)) } else { None };
        Ok((inst, app))
    }

    /// Serve through `n` instances (1 = the default single server) with the given clock skews.
    pub fn set_instances(&mut self, n: usize, skews: Vec<i64>) -> anyhow::Result<()> {
        self.n_inst = n.max(1);
        self.skews = skews;
        self.skews.resize(self.n_inst, 0);
        self.rebuild_instances(self.allow.clone(), self.cfg)
    }

    fn rebuild_instances(&mut self, allow: Option<HashSet<Uuid>>, cfg: Cfg) -> anyhow::Result<()> {
        self.app = None;
        self.others.clear();
        let (i0, a0) = self.make_instance(0, allow.clone(), cfg)?;
        self.inst = i0;
        self.app = a0;
        self.cur_inst = 0;
        for i in 1..self.n_inst {
            let x = self.make_instance(i, allow.clone(), cfg)?;
            self.others.push(x);
        }
        Ok(())
    }

    /// Make instance `i` the serving one.
    pub fn switch_to(&mut self, i: usize) {
        let i = i % self.n_inst;
        if i == self.cur_inst {
            return;
        }
        // others[k] holds instance k+1, except that the slot of the currently serving instance
        // holds instance 0 after a swap; keep it simple: rotate through a canonical layout
        // canonical: put current back to its slot, then take i out
        if self.cur_inst != 0 {
            let slot = self.cur_inst - 1;
            std::mem::swap(&mut self.inst, &mut self.others[slot].0);
            std::mem::swap(&mut self.app, &mut self.others[slot].1);
            self.cur_inst = 0;
        }
        if i != 0 {
            let slot = i - 1;
            std::mem::swap(&mut self.inst, &mut self.others[slot].0);
            std::mem::swap(&mut self.app, &mut self.others[slot].1);
            self.cur_inst = i;
        }
    }

    /// The clock as the serving instance reads it.
    pub fn inst_now(&self) -> i64 {
        sched::now_us() + self.inst.skew_us
    }

    pub fn restart(&mut self, allow: Option<HashSet<Uuid>>, cfg: Cfg) -> anyhow::Result<()> {
        crate::vfs::foreign_read_release_now();
        self.app = None;
        self.others.clear();
        // a restarted server is a new process: in some runs a fresh child process opens the directory
        // first (start-up code guarded by process-wide state runs there)
        if self.seed % 5 == 0 {
            if let Some(d) = &self.store.dir {
                if !crate::world::first_open_in_fresh_process(d) {
                    anyhow::bail!("a freshly started process cannot open the data directory");
                }
            }
        }
        self.store.reopen()?;
        self.allow = allow.clone();
        self.cfg = cfg;
        self.model.cfg = cfg;
        self.rebuild_instances(allow, cfg)
    }

    /// Issue a concrete request through the world's entry point (no oracle).
    pub fn issue(&mut self, req: &Req, ch: &Chunking, out: &mut RunOut) -> Resp {
        self.inst.ctl.begin_request(std::mem::take(&mut self.next_faults));
        crate::vfs::pause_capture(false);
        let resp = match (self.entry, &self.app) {
            (Entry::Http, Some(app)) => {
                let (resp, raw, mm) = match self.wire_override.take() {
                    Some(w) => crate::http::call_http_wire(&self.inst, app, req, w),
                    None => call_http(&self.inst, app, req, ch),
                };
                self.last_raw = raw.clone();
                for m in mm {
                    out.violations.push(m.into());
                }
                if let Some(raw) = raw {
                    out.bump(&format!("http.{}.{}", req.kind(), raw.status));
                }
                resp
            }
            _ => self.inst.call_lib(req),
        };
        crate::vfs::pause_capture(true);
        self.steps += 1;
        self.digest.add_str(&req.short());
        self.digest.add_str(&resp.short());
        if let Resp::GcFound { data, .. } | Resp::GsFound { data, .. } = &resp {
            self.digest.add_u64(crate::rng::fnv(data));
        }
        if self.trace.len() < 40 {
            self.trace.push(format!("{} -> {}", req.short(), resp.short()));
        }
        resp
    }

    /// Compare the projection with what the model implies.
    pub fn compare_state(&self, proj: &Projection, out: &mut Vec<Violation>) {
        let ids = self.ids();
        for c in &self.clients {
            let m = self.model.client(c);
            let p = proj.get(c).cloned().flatten();
            let m = match m {
                None => {
                    if let Some(p) = p {
                        if self.tolerate_empty_clients && p.latest.is_nil() && p.snap.is_none() && p.versions.is_empty() {
                            continue;
                        }
                        out.push(viol(
                            &["C02", "C09", "C18", "C15", "C14"],
                            "state.unexpected_client",
                            format!("client {} was never created but is stored: latest={} snap={:?} versions={}", sid(c), sid(&p.latest), p.snap.map(|s| sid(&s.0)), p.versions.len()),
                        ));
                    }
                    continue;
                }
                Some(m) => m,
            };
            let p = match p {
                Some(p) => p,
                None => {
                    out.push(viol(
                        &["C02", "C07", "C01", "C13"],
                        "state.client_missing",
                        format!("client {} has {} versions in the model but nothing stored", sid(c), m.versions.len()),
                    ));
                    continue;
                }
            };
            if p.latest != m.latest() {
                out.push(viol(
                    &["C02", "C01", "C13"],
                    "state.latest",
                    format!("client {}: stored latest {} != model latest {}", sid(c), sid(&p.latest), sid(&m.latest())),
                ));
            }
            match (&m.snap, &p.snap) {
                (None, None) => {}
                (Some(ms), Some(ps)) => {
                    if ps.0 != ms.version || ps.3 != crate::rng::fnv(&ms.data) || ps.4 != ms.data.len() {
                        out.push(viol(
                            &["C10", "C11", "C06"],
                            "state.snapshot",
                            format!("client {}: stored snapshot ({}, {}B) != model ({}, {}B)", sid(c), sid(&ps.0), ps.4, sid(&ms.version), ms.data.len()),
                        ));
                    } else {
                        if ps.2 != ms.since {
                            out.push(viol(
                                &["C12", "C13", "C10"],
                                "state.since",
                                format!("client {}: versions-since counter {} != versions accepted since the snapshot {}", sid(c), ps.2, ms.since),
                            ));
                        }
                        if ps.1 < sec_of(ms.ts_lo) || ps.1 > sec_of(ms.ts_hi) {
                            out.push(viol(
                                &["C12", "C13", "C10"],
                                "state.snapshot_time",
                                format!("client {}: snapshot time {} outside [{}, {}]", sid(c), ps.1, sec_of(ms.ts_lo), sec_of(ms.ts_hi)),
                            ));
                        }
                    }
                }
                (ms, ps) => out.push(viol(
                    &["C10", "C11"],
                    "state.snapshot",
                    format!("client {}: stored snapshot {:?} vs model {:?}", sid(c), ps.map(|s| sid(&s.0)), ms.as_ref().map(|s| sid(&s.version))),
                )),
            }
            let mut exp = Vec::new();
            for id in &ids {
                let a = m.versions.iter().find(|v| v.id == *id).map(|v| (v.id, v.parent, crate::rng::fnv(&v.data), v.data.len()));
                let b = m.versions.iter().find(|v| v.parent == *id).map(|v| (v.id, v.parent, crate::rng::fnv(&v.data), v.data.len()));
                if a.is_some() || b.is_some() {
                    exp.push((*id, a, b));
                }
            }
            if exp != p.versions {
                let mut detail = String::new();
                for e in &exp {
                    if !p.versions.contains(e) {
                        detail = format!("expected at {}: by-id {:?} by-parent {:?}", sid(&e.0), e.1.map(|x| (sid(&x.0), sid(&x.1), x.3)), e.2.map(|x| (sid(&x.0), sid(&x.1), x.3)));
                        break;
                    }
                }
                if detail.is_empty() {
                    for e in &p.versions {
                        if !exp.contains(e) {
                            detail = format!("unexpected at {}: by-id {:?} by-parent {:?}", sid(&e.0), e.1.map(|x| (sid(&x.0), sid(&x.1), x.3)), e.2.map(|x| (sid(&x.0), sid(&x.1), x.3)));
                            break;
                        }
                    }
                }
                out.push(viol(
                    &["C07", "C02", "C06", "C01", "C09"],
                    "state.version",
                    format!("client {}: stored version records differ from the accepted ones: {}", sid(c), detail),
                ));
            }
            // no two versions share a parent (by-id records of every known id)
            let mut parents: BTreeMap<Id, Id> = BTreeMap::new();
            for (_, a, _) in &p.versions {
                if let Some((id, parent, _, _)) = a {
                    if let Some(prev) = parents.insert(*parent, *id) {
                        if prev != *id {
                            out.push(viol(
                                &["C01", "C03"],
                                "state.shared_parent",
                                format!("client {}: versions {} and {} share parent {}", sid(c), sid(&prev), sid(id), sid(parent)),
                            ));
                        }
                    }
                }
            }
        }
    }

    /// Execute one symbolic operation with all per-step oracles.
    pub fn step(&mut self, op: &Op, out: &mut RunOut) -> Option<StepOut> {
        crate::vfs::foreign_read_release_due();
        match op {
            Op::Advance { us } => {
                let lim = 200 * 365 * DAY_US;
                let t = (sched::now_us() as i128 + *us as i128).clamp(-(lim as i128), lim as i128) as i64;
                sched::set_now_us(t);
                self.digest.add_u64(t as u64);
                out.bump(if *us < 0 { "clock.jump_back" } else { "clock.jump_forward" });
                return None;
            }
            Op::ForeignRead { hold_us } => {
                if let Some(d) = &self.store.dir {
                    if crate::vfs::foreign_read_hold(&d.join(crate::world::DB_FILE), *hold_us).is_ok() {
                        out.bump("fault.foreign_reader_holds_snapshot");
                    }
                }
                return None;
            }
            Op::ForeignLock { hold_us } => {
                if let Some(d) = &self.store.dir {
                    if crate::vfs::foreign_hold(&d.join(crate::world::DB_FILE), *hold_us).is_ok() {
                        out.bump("fault.foreign_writer_holds_lock");
                    }
                }
                return None;
            }
            Op::Reconfig { days, versions } => {
                // restart with other snapshot targets (both backends: a new server over the same storage)
                let cfg = Cfg { days: *days, versions: *versions };
                if let Err(e) = self.restart(self.allow.clone(), cfg) {
                    out.violations.push(viol(&["C13", "C12"], "restart.failed", format!("restart with new targets failed: {e:#}")));
                    return None;
                }
                out.bump("fault.restart_with_new_snapshot_targets");
                match self.take_projection() {
                    Ok(p) => {
                        if let Some(d) = proj_diff(&self.proj, &p) {
                            out.violations.push(viol(&["C13", "C12"], "restart.changed_state", format!("state changed across a restart with new targets: {d}")));
                        }
                        self.proj = p;
                    }
                    Err(e) => out.violations.push(viol(&["C13"], "restart.unreadable", format!("{e:#}"))),
                }
                return None;
            }
            Op::Restart => {
                if self.store.backend == Backend::Sqlite {
                    if let Err(e) = self.restart(self.allow.clone(), self.cfg) {
                        out.violations.push(viol(&["C13", "C04"], "restart.failed", format!("reopening the database failed: {e:#}")));
                        return None;
                    }
                    out.bump("fault.clean_restart");
                    match self.take_projection() {
                        Ok(p) => {
                            if let Some(d) = proj_diff(&self.proj, &p) {
                                out.violations.push(viol(&["C13", "C07"], "restart.changed_state", format!("state changed across a clean restart: {d}")));
                            }
                            self.proj = p;
                        }
                        Err(e) => out.violations.push(viol(&["C13"], "restart.unreadable", format!("{e:#}"))),
                    }
                    self.full_check(out);
                }
                return None;
            }
            Op::Bulk { c, n } => {
                out.bump("probe.long_history");
                for i in 0..*n {
                    let op = Op::AddVersion { c: *c, parent: IdArg::Latest, pay: Pay { class: 2, len: 9, tag: 7_000_000 + i as u32 }, ch: Chunking::Whole };
                    self.step(&op, out);
                    if crate::report::should_stop(out) {
                        break;
                    }
                }
                return None;
            }
            Op::PresetProbe { k } => {
                if self.entry != Entry::Lib {
                    return None;
                }
                let cid = ops::fresh_id(self.seed, 7000 + *k as u16);
                let x = ops::fresh_id(self.seed, 7100 + *k as u16);
                let made = (|| -> anyhow::Result<bool> {
                    let mut t = self.store.raw.txn(cid)?;
                    if t.get_client()?.is_some() {
                        return Ok(false);
                    }
                    t.new_client(x)?;
                    t.commit()?;
                    Ok(true)
                })();
                match made {
                    Ok(true) => {}
                    Ok(false) => return None,
                    Err(e) => {
                        out.violations.push(viol(&["C13"], "preset.create_failed", format!("creating a client through the storage failed: {e:#}")));
                        return None;
                    }
                }
                out.bump("probe.preset_client_with_nonnil_latest");
                let foreign = self.model.clients.values().flat_map(|c| c.versions.iter().map(|v| v.id)).next();
                let mut ps: Vec<(&str, Id)> = vec![("nil", uuid::Uuid::nil()), ("a fresh id", ops::fresh_id(self.seed, 7200 + *k as u16))];
                if let Some(f) = foreign {
                    ps.push(("another client's version", f));
                }
                ps.push(("its latest id", x));
                for (what, p) in ps {
                    let gc = self.inst.call_lib(&Req::GetChild { c: cid, parent: p });
                    let av = self.inst.call_lib(&Req::AddVersion { c: cid, parent: p, data: std::sync::Arc::new(vec![b'p', *k]) });
                    let agree = match (&gc, &av) {
                        (Resp::GcNotFound, Resp::AvOk { .. }) => true,
                        (Resp::GcGone, Resp::AvConflict { .. }) => true,
                        _ => false,
                    };
                    let want_accept = p == x;
                    let right = matches!(&av, Resp::AvOk { .. }) == want_accept && (!matches!(&av, Resp::AvConflict { expected } if *expected != x));
                    if !agree || !right {
                        out.violations.push(viol(
                            &["C08", "C02"],
                            "preset.gc_av_disagree",
                            format!(
                                "client created through the storage with latest {} and no versions, parent = {what}: GetChildVersion -> {}, AddVersion -> {} (not-found must go with accepted, gone with rejected; only the latest id is acceptable)",
                                sid(&x),
                                gc.short(),
                                av.short()
                            ),
                        ));
                        break;
                    }
                }
                return None;
            }
            Op::SeedSnap { c, since, age_us } => {
                let cid = client_id(self.seed, *c);
                let has = self.model.client(&cid).and_then(|cl| cl.snap.as_ref()).is_some();
                if !has {
                    return None;
                }
                let now = sched::now_us();
                let r = (|| -> anyhow::Result<()> {
                    let mut t = self.store.raw.txn(cid)?;
                    let cl = t.get_client()?.ok_or_else(|| anyhow::anyhow!("client vanished"))?;
                    let s = cl.snapshot.ok_or_else(|| anyhow::anyhow!("snapshot vanished"))?;
                    let data = t.get_snapshot_data(s.version_id)?.ok_or_else(|| anyhow::anyhow!("snapshot data vanished"))?;
                    let new = Snapshot {
                        version_id: s.version_id,
                        timestamp: match age_us {
                            Some(a) => dt_from_us(now - *a),
                            None => s.timestamp,
                        },
                        versions_since: since.unwrap_or(s.versions_since),
                    };
                    t.set_snapshot(new, data)?;
                    t.commit()?;
                    Ok(())
                })();
                match r {
                    Ok(()) => {
                        let ms = self.model.clients.get_mut(&cid).unwrap().snap.as_mut().unwrap();
                        if let Some(s) = since {
                            ms.since = *s;
                        }
                        if let Some(a) = age_us {
                            ms.ts_lo = now - *a;
                            ms.ts_hi = now - *a;
                        }
                        out.bump("seed.snapshot_bookkeeping");
                        if let Ok(p) = self.take_projection() {
                            self.proj = p;
                        }
                    }
                    // the model says this client holds a snapshot; if the storage disagrees that is a
                    // state divergence of the code under test (snapshot properties), not a harness problem
                    Err(e) => out.violations.push(viol(&["C10", "C11"], "state.snapshot", format!("client {}: the model holds an accepted snapshot but the storage cannot produce it: {e:#}", sid(&cid)))),
                }
                return None;
            }
            _ => {}
        }
        if let Op::Resend = op {
            let (req, ch) = self.last_upload.clone()?;
            out.bump("fault.duplicate_delivery_of_upload");
            return Some(self.step_req(req, &ch, "resend", out));
        }
        if let Op::Create { c } = op {
            // storage contract: new_client only for a client that does not exist
            if self.model.client(&client_id(self.seed, *c)).is_some() {
                return None;
            }
        }
        let req = concretise(self.seed, &self.model, self.n_clients, op)?;
        let ch = match op {
            Op::AddVersion { ch, .. } | Op::AddSnapshot { ch, .. } => ch.clone(),
            _ => Chunking::Whole,
        };
        if matches!(req, Req::AddVersion { .. } | Req::AddSnapshot { .. }) {
            self.last_upload = Some((req.clone(), ch.clone()));
        }
        Some(self.step_req(req, &ch, op_argclass(op), out))
    }

    pub fn step_req(&mut self, req: Req, ch: &Chunking, argclass: &'static str, out: &mut RunOut) -> StepOut {
        let http = self.entry == Entry::Http;
        let cid = req.client();
        // what the model expects, before applying
        let pre_decision = match &req {
            Req::AddSnapshot { c, v, .. } => Some(self.model.snapshot_decision(c, v)),
            _ => None,
        };
        let state_class = self.state_class(&cid);
        let t = self.inst_now();
        let pre_snap = self.model.client(&cid).and_then(|c| c.snap.as_ref()).map(|s| (s.version, s.ts_lo, s.since));
        let foreign_hold = crate::vfs::foreign_remaining();
        let resp = self.issue(&req, ch, out);
        let t2 = self.inst_now();
        let log = self.inst.ctl.take_log();
        if foreign_hold > 0 {
            // the harness's own state reads need the lock too
            crate::vfs::foreign_release_now();
            if t2 - t > 0 {
                out.bump("probe.request_waited_for_foreign_lock");
            }
            if matches!(resp, Resp::Error(_)) && foreign_hold > 4_400_000 {
                // the lock outlasted the backend's lock-wait budget: an error is a legitimate answer,
                // provided the request had no effect at all
                out.bump("probe.request_timed_out_behind_foreign_lock");
                match self.take_projection() {
                    Ok(mut after) => {
                        let mut before = self.proj.clone();
                        if http && matches!(req, Req::AddVersion { .. }) && self.model.client(&cid).is_none() {
                            crate::world::identify_empty(&mut before);
                            crate::world::identify_empty(&mut after);
                        }
                        if let Some(d) = proj_diff(&before, &after) {
                            out.violations.push(viol(&["C05", "C03", "C04"], "busy.partial_effect", format!("{} gave up waiting for the database lock ({}) but left an effect: {d}", req.short(), resp.short())));
                        }
                        if http && matches!(req, Req::AddVersion { .. }) && self.model.client(&cid).is_none() {
                            if let Ok(p) = self.take_projection() {
                                if matches!(p.get(&cid), Some(Some(_))) {
                                    self.model.clients.entry(cid).or_default().exists = true;
                                }
                                self.proj = p;
                            }
                        }
                    }
                    Err(e) => out.violations.push(viol(&["C05"], "state.unreadable", format!("{e:#}"))),
                }
                self.last_probe = None;
                return StepOut { req, resp };
            }
        }
        for m in self.model.apply(&req, &resp, t, t2, http) {
            out.violations.push(m.into());
        }
        out.bump(&format!("resp.{}", resp.class()));
        // C12, directly: with the same stored snapshot and the same targets, the urgency never
        // decreases as the snapshot gets older and more versions pile up
        if let (Resp::AvOk { urg, .. }, Some((sv, sts, since))) = (&resp, pre_snap) {
            let age = t2 - sts;
            if let Some((pv, pts, page, psince, purg, pcfg)) = self.mono.get(&cid).copied() {
                if pv == sv && pts == sts && pcfg == self.cfg && age >= page && since >= psince && *urg < purg {
                    out.violations.push(viol(
                        &["C12"],
                        "urgency.decreased",
                        format!("client {}: urgency went from {:?} (age {} µs, {} versions since) to {:?} (age {} µs, {} versions since) for the same snapshot and targets", sid(&cid), purg, page, psince, urg, age, since),
                    ));
                }
            }
            self.mono.insert(cid, (sv, sts, age, since, *urg, self.cfg));
            out.bump("probe.urgency_monotonicity_pair");
        }
        // reach grid cell
        out.cells.push(crate::rng::mix(&[
            crate::rng::tag(state_class.as_str()),
            crate::rng::tag(req.kind()),
            crate::rng::tag(argclass),
            crate::rng::tag(resp.class()),
        ]));
        // state after
        let after = match self.take_projection() {
            Ok(p) => p,
            Err(e) => {
                out.violations.push(viol(&["C13", "C05"], "state.unreadable", format!("projection failed after {}: {e:#}", req.short())));
                return StepOut { req, resp };
            }
        };
        if let Some((c, v, ..)) = &self.model.pending_corner {
            let accepted = after.get(c).cloned().flatten().and_then(|p| p.snap).map(|s| s.0 == *v).unwrap_or(false);
            out.bump(if accepted { "corner.base_snapshot_accepted" } else { "corner.base_snapshot_declined" });
            self.model.resolve_corner(accepted);
        }
        // non-mutating outcomes leave everything untouched (model-independent before/after)
        let nonmut = match (&req, &resp) {
            (Req::GetChild { .. }, _) | (Req::GetSnapshot { .. }, _) => true,
            (Req::AddVersion { .. }, Resp::AvConflict { .. } | Resp::NoSuchClient) => true,
            (Req::AddSnapshot { .. }, Resp::NoSuchClient) => true,
            (Req::AddSnapshot { .. }, Resp::AsOk) => pre_decision == Some(SnapDecision::Decline),
            _ => false,
        };
        if nonmut {
            if let Some(d) = proj_diff(&self.proj, &after) {
                let props: &[&str] = match &req {
                    Req::AddVersion { .. } => &["C18", "C02"],
                    Req::AddSnapshot { .. } => &["C18", "C10"],
                    _ => &["C18"],
                };
                out.violations.push(viol(props, "nonmut.changed_state", format!("{} -> {} changed stored state: {}", req.short(), resp.short(), d)));
            }
            // and no write was committed
            let mut wrote = false;
            for (call, ok) in &log {
                if call.is_write() && *ok {
                    wrote = true;
                }
                if *call == Call::Commit && *ok && wrote {
                    // not a violation by itself (a write that changes nothing protocol-visible is
                    // allowed); the before/after projection above is the oracle
                    out.bump("probe.nonmutating_outcome_committed_a_write");
                    break;
                }
            }
            out.bump("probe.nonmutating_checked");
        } else {
            // a mutating outcome must not touch other clients
            for c in &self.clients {
                if *c != cid && self.proj.get(c) != after.get(c) {
                    out.violations.push(viol(&["C09", "C18"], "state.other_client_changed", format!("{} changed client {}", req.short(), sid(c))));
                }
            }
        }
        let mut vs = Vec::new();
        self.compare_state(&after, &mut vs);
        out.violations.extend(vs);
        self.proj = after;
        // snapshot only moves forward
        if let Some(cl) = self.model.client(&cid) {
            if let Some(s) = &cl.snap {
                let e = self.max_snap_pos.entry(cid).or_insert(0);
                if s.pos < *e {
                    out.violations.push(viol(&["C10"], "snapshot.moved_backwards", format!("client {} snapshot moved from position {} to {}", sid(&cid), *e, s.pos)));
                }
                *e = (*e).max(s.pos);
            }
        }
        // C08 pairing: a probe followed by an add with the same parent on the same state
        match (&req, &resp) {
            (Req::GetChild { c, parent }, r) => {
                self.last_probe = Some((*c, *parent, r.class()));
            }
            (Req::AddVersion { c, parent, .. }, r) => {
                if let Some((pc, pp, cls)) = self.last_probe.take() {
                    if pc == *c && pp == *parent {
                        let accepted = matches!(r, Resp::AvOk { .. });
                        let ok = match cls {
                            "gc_found" | "gc_gone" => !accepted,
                            "gc_notfound" => accepted,
                            _ => true,
                        };
                        out.bump("probe.c08_pair");
                        if !ok {
                            out.violations.push(viol(&["C08"], "gc.av_equivalence", format!("GetChildVersion({}) answered {} but AddVersion on the same state was {}", sid(parent), cls, r.short())));
                        }
                    }
                }
            }
            _ => {
                self.last_probe = None;
            }
        }
        StepOut { req, resp }
    }

    /// Name an id by its role relative to client `c` (for comparisons modulo issued ids).
    pub fn canon_id(&self, c: &Id, id: &Id) -> String {
        if id.is_nil() {
            return "nil".into();
        }
        if let Some(cl) = self.model.client(c) {
            if let Some(pos) = cl.versions.iter().position(|v| v.id == *id) {
                return format!("v{pos}");
            }
            if cl.base == Some(*id) {
                return "base".into();
            }
        }
        "other".into()
    }

    /// A response with ids replaced by roles and payloads by digests. Call after the model advanced.
    pub fn canon_resp(&self, c: &Id, resp: &Resp) -> String {
        match resp {
            Resp::AvOk { id, urg } => format!("AvOk({},{:?})", self.canon_id(c, id), urg),
            Resp::AvConflict { expected } => format!("AvConflict({})", self.canon_id(c, expected)),
            Resp::GcFound { id, parent, data } => format!("GcFound({},{},{}B,{:x})", self.canon_id(c, id), self.canon_id(c, parent), data.len(), crate::rng::fnv(data)),
            Resp::GsFound { id, data } => format!("GsFound({},{}B,{:x})", self.canon_id(c, id), data.len(), crate::rng::fnv(data)),
            Resp::Error(_) => "Error".into(),
            Resp::Panic(_) => "Panic".into(),
            // HTTP cannot tell an unknown client from not-found
            Resp::NoSuchClient | Resp::GcNotFound | Resp::GsNone => "NotFound".into(),
            other => format!("{other:?}"),
        }
    }

    fn state_class(&self, c: &Id) -> String {
        match self.model.client(c) {
            None => "unknown".into(),
            Some(cl) => format!(
                "n{}b{}s{}",
                cl.versions.len().min(9),
                cl.base.map(|b| if b.is_nil() { 0 } else { 1 }).unwrap_or(2),
                cl.snap.as_ref().map(|s| (cl.versions.len() - s.pos.min(cl.versions.len())).min(7) as i32).unwrap_or(-1)
            ),
        }
    }

    /// Re-read one earlier accepted version of a random client (C07).
    pub fn audit_one(&mut self, r: &mut Rng, out: &mut RunOut) {
        crate::vfs::foreign_release_now();
        let with: Vec<Id> = self.clients.iter().filter(|c| self.model.client(c).map(|cl| !cl.versions.is_empty()).unwrap_or(false)).cloned().collect();
        if with.is_empty() {
            return;
        }
        let c = *r.pick(&with);
        let cl = self.model.client(&c).unwrap();
        let v = &cl.versions[r.below(cl.versions.len() as u64) as usize];
        let req = Req::GetChild { c, parent: v.parent };
        let t = self.inst_now();
        let resp = self.issue(&req, &Chunking::Whole, out);
        for m in self.model.apply(&req, &resp, t, t, self.entry == Entry::Http) {
            let mut v: Violation = m.into();
            if !v.props.iter().any(|p| p == "C07") {
                v.props.push("C07".into());
            }
            out.violations.push(v);
        }
        out.bump("probe.reread_old_version");
        self.last_probe = None;
    }

    /// Walk every chain end to end, walk from every snapshot, re-read everything.
    pub fn full_check(&mut self, out: &mut RunOut) {
        crate::vfs::foreign_release_now();
        let http = self.entry == Entry::Http;
        self.last_probe = None;
        for c in self.clients.clone() {
            let cl = match self.model.client(&c) {
                Some(cl) => cl.clone(),
                None => continue,
            };
            // C01: from the base, children come back in acceptance order, then not-found at latest
            let mut cur = cl.base.unwrap_or(Uuid::nil());
            let mut seen: Vec<Id> = Vec::new();
            let mut end = None;
            for _ in 0..cl.versions.len() + 2 {
                let req = Req::GetChild { c, parent: cur };
                let t = self.inst_now();
                let resp = self.issue(&req, &Chunking::Whole, out);
                for m in self.model.apply(&req, &resp, t, t, http) {
                    out.violations.push(m.into());
                }
                match resp {
                    Resp::GcFound { id, .. } => {
                        seen.push(id);
                        cur = id;
                    }
                    other => {
                        end = Some(other);
                        break;
                    }
                }
            }
            let want: Vec<Id> = cl.versions.iter().map(|v| v.id).collect();
            let end_ok = matches!(end, Some(Resp::GcNotFound));
            if seen != want || !end_ok {
                out.violations.push(viol(
                    &["C01", "C07"],
                    "walk.chain",
                    format!(
                        "client {}: walking from {} returned [{}] then {:?}; accepted order is [{}] then not-found",
                        sid(&c),
                        sid(&cl.base.unwrap_or(Uuid::nil())),
                        seen.iter().map(sid).collect::<Vec<_>>().join(","),
                        end.map(|e| e.short()),
                        want.iter().map(sid).collect::<Vec<_>>().join(",")
                    ),
                ));
            }
            out.bump("probe.chain_walk");
            if !want.is_empty() {
                out.add("probe.chain_walk_versions", want.len() as u64);
            }
            // C11: snapshot is a usable base
            let req = Req::GetSnapshot { c };
            let t = self.inst_now();
            let resp = self.issue(&req, &Chunking::Whole, out);
            for m in self.model.apply(&req, &resp, t, t, http) {
                out.violations.push(m.into());
            }
            if let Resp::GsFound { id, .. } = resp {
                let mut cur = id;
                let mut ok = false;
                let mut why = String::new();
                for _ in 0..cl.versions.len() + 2 {
                    let req = Req::GetChild { c, parent: cur };
                    let resp = self.issue(&req, &Chunking::Whole, out);
                    match resp {
                        Resp::GcFound { id, .. } => cur = id,
                        Resp::GcNotFound => {
                            ok = cur == cl.latest();
                            if !ok {
                                why = format!("walk ended not-found at {} which is not the latest {}", sid(&cur), sid(&cl.latest()));
                            }
                            break;
                        }
                        other => {
                            why = format!("walk from snapshot hit {}", other.short());
                            break;
                        }
                    }
                }
                if !ok {
                    out.violations.push(viol(&["C11"], "walk.from_snapshot", format!("client {}: snapshot {} is not a usable base: {}", sid(&c), sid(&id), why)));
                }
                out.bump("probe.snapshot_walk");
            }
        }
        // reads above must not have changed anything
        match self.take_projection() {
            Ok(p) => {
                if let Some(d) = proj_diff(&self.proj, &p) {
                    out.violations.push(viol(&["C18"], "nonmut.changed_state", format!("reads during a full walk changed stored state: {d}")));
                }
                let mut vs = Vec::new();
                self.compare_state(&p, &mut vs);
                out.violations.extend(vs);
                self.proj = p;
            }
            Err(e) => out.violations.push(viol(&["C13"], "state.unreadable", format!("{e:#}"))),
        }
    }
}

pub fn op_argclass(op: &Op) -> &'static str {
    match op {
        Op::AddVersion { parent, .. } | Op::GetChild { parent, .. } => parent.class(),
        Op::AddSnapshot { v, .. } => v.class(),
        _ => "-",
    }
}

// ---------------------------------------------------------------------------------------------
// generation

pub const DAYS_LIST: &[i64] = &[
    0, 1, 2, 3, 5, 7, 14, 14, 14, 30, 365, 36500,
    i64::MAX / 3 - 1, i64::MAX / 3, i64::MAX / 3 + 1, i64::MAX / 3 + 2,
    6148914691236517205, i64::MAX - 1, i64::MAX, 1 << 40,
];
pub const VERSIONS_LIST: &[u32] = &[
    0, 1, 2, 3, 4, 5, 7, 9, 100, 100, 100,
    u32::MAX / 3 - 1, u32::MAX / 3, u32::MAX / 3 + 1, u32::MAX / 3 + 2,
    2863311530, u32::MAX - 1, u32::MAX,
];

/// What a generated history emphasises.
#[derive(Clone, Copy, Debug, Serialize, Deserialize, PartialEq, Eq, PartialOrd, Ord)]
pub enum Focus {
    General,
    Snapshots,
    Urgency,
    Payloads,
}

pub fn gen_cfg(r: &mut Rng, focus: Focus) -> Cfg {
    let small = match focus {
        Focus::Urgency => 45,
        _ => 30,
    };
    let k = r.below(100);
    if k < small {
        Cfg {
            days: *r.pick(&[0i64, 1, 2, 3, 5, 7]),
            versions: *r.pick(&[0u32, 1, 2, 3, 4, 5, 7, 9]),
        }
    } else if k < small + 25 {
        Cfg { days: 14, versions: 100 }
    } else {
        Cfg {
            days: *r.pick(DAYS_LIST),
            versions: *r.pick(VERSIONS_LIST),
        }
    }
}

fn gen_advance(r: &mut Rng, cfg: &Cfg, whole_sec: bool) -> i64 {
    let day = DAY_US as i128;
    let t = cfg.days as i128;
    let around = |base: i128, r: &mut Rng| -> i128 {
        base + *r.pick(&[0i128, 1, -1, 1000, -1000, 1_000_000, -1_000_000, 86_400_000_000, -86_400_000_000, 43_200_000_000])
    };
    let v: i128 = match r.below(12) {
        0 => r.range(1, 5000) as i128,
        1 => r.range(1, 3600) as i128 * 1_000_000,
        2 => r.range(1, 40) as i128 * day + r.range(0, 86_399) as i128 * 1_000_000,
        3 | 4 => around(t.min(60_000) * day, r),
        5 | 6 => around((t.min(60_000) * 3 / 2) * day, r),
        7 => around(day, r),
        8 => -(r.range(1, 3 * 86_400) as i128) * 1_000_000,
        9 => -(r.range(1, 400) as i128) * day,
        10 => r.range(1, 100) as i128 * 365 * day,
        _ => r.range(1, 20) as i128 * day / 2,
    };
    let v = v.clamp(-(150 * 365 * day), 150 * 365 * day) as i64;
    if whole_sec {
        v / 1_000_000 * 1_000_000
    } else {
        v
    }
}

pub struct GenParams {
    pub backend: Backend,
    pub entry: Entry,
    pub focus: Focus,
    pub max_ops: u32,
    pub max_payload: u32,
    pub whole_sec: bool,
    pub allow_restart: bool,
    pub allow_seed: bool,
    pub foreign_lock_pct: u32,
    /// library entry only: now and then an upload is EMPTY (the storage contract and the library
    /// accept a zero-length segment or snapshot; only the HTTP handlers refuse an empty body)
    pub allow_empty_payload: bool,
}

pub fn gen_ops(r: &mut Rng, p: &GenParams, n_clients: u8, cfg: &Cfg, page: u32) -> Vec<Op> {
    let n_ops = r.range(3, p.max_ops as i64) as usize;
    let mut ops = Vec::new();
    let mut created = vec![false; n_clients as usize];
    let mut tag = 0u32;
    let mut pay = |r: &mut Rng, small: bool| -> Pay {
        tag += 1;
        let len = if small { r.range(1, 40) as u32 } else { ops::gen_len(r, page, p.max_payload) };
        let len = if p.allow_empty_payload && p.entry == Entry::Lib && r.chance(2, 100) { 0 } else { len };
        let class = if len >= 32 && r.chance(5, 100) { *r.pick(&[ops::CLASS_ZLIB, ops::CLASS_GZIP]) } else { r.below(ops::N_CLASSES as u64) as u8 };
        Pay { class, len, tag }
    };
    let w: [u32; 8] = match p.focus {
        //           AV  GC  AS  GS  Adv Rst Seed Create
        Focus::General => [36, 20, 16, 8, 7, 3, 3, 1],
        Focus::Snapshots => [34, 8, 36, 10, 3, 2, 2, 1],
        Focus::Urgency => [44, 4, 14, 2, 20, 2, 12, 0],
        Focus::Payloads => [44, 26, 16, 12, 0, 3, 0, 0],
    };
    while ops.len() < n_ops {
        let c = r.below(n_clients as u64) as u8;
        let kind = r.weighted(&w);
        if p.backend == Backend::Sqlite && p.foreign_lock_pct > 0 && matches!(kind, 0..=3) && r.chance(p.foreign_lock_pct as u64, 100) {
            // shortly, around the 5 s lock-wait budget, or well beyond it
            let hold = match r.below(3) {
                0 => r.range(100_000, 4_000_000),
                1 => r.range(4_500_000, 6_500_000),
                _ => r.range(6_500_000, 12_000_000),
            };
            if r.chance(30, 100) {
                ops.push(Op::ForeignRead { hold_us: r.range(1_000_000, 90_000_000) });
            } else {
                ops.push(Op::ForeignLock { hold_us: hold });
            }
        }
        // library callers create clients explicitly (mostly)
        if p.entry == Entry::Lib && !created[c as usize] && matches!(kind, 0..=3) && r.chance(9, 10) {
            created[c as usize] = true;
            ops.push(Op::Create { c });
        }
        match kind {
            0 => {
                let parent = if r.chance(62, 100) { IdArg::Latest } else { ops::gen_idarg(r, false) };
                if r.chance(22, 100) {
                    ops.push(Op::GetChild { c, parent: parent.clone() });
                }
                let small = p.focus != Focus::Payloads && r.chance(70, 100);
                let py = pay(r, small);
                let ch = ops::gen_chunking(r, py.len);
                ops.push(Op::AddVersion { c, parent, pay: py, ch });
                if r.chance(7, 100) {
                    ops.push(Op::Resend);
                }
            }
            1 => ops.push(Op::GetChild { c, parent: ops::gen_idarg(r, false) }),
            2 => {
                let small = p.focus != Focus::Payloads && r.chance(70, 100);
                let py = pay(r, small);
                let ch = ops::gen_chunking(r, py.len);
                ops.push(Op::AddSnapshot { c, v: ops::gen_idarg(r, true), pay: py, ch });
                if r.chance(6, 100) {
                    ops.push(Op::Resend);
                }
                if r.chance(30, 100) {
                    ops.push(Op::GetSnapshot { c });
                }
            }
            3 => ops.push(Op::GetSnapshot { c }),
            4 => ops.push(Op::Advance { us: gen_advance(r, cfg, p.whole_sec) }),
            5 => {
                if p.allow_restart && r.chance(40, 100) {
                    let c2 = gen_cfg(r, p.focus);
                    ops.push(Op::Reconfig { days: c2.days, versions: c2.versions });
                } else if p.allow_restart && p.backend == Backend::Sqlite {
                    ops.push(Op::Restart);
                }
            }
            6 => {
                if p.allow_seed {
                    let tv = cfg.versions as i128;
                    let since = if r.chance(75, 100) {
                        let base = *r.pick(&[tv, tv * 3 / 2, tv / 2, 0]);
                        let v = (base + r.range(-3, 2) as i128).clamp(0, u32::MAX as i128 - 1000);
                        Some(v as u32)
                    } else {
                        None
                    };
                    let age = if r.chance(40, 100) {
                        Some(gen_advance(r, cfg, p.whole_sec).abs())
                    } else {
                        None
                    };
                    ops.push(Op::SeedSnap { c, since, age_us: age });
                }
            }
            _ => {
                if p.entry == Entry::Lib && !created[c as usize] {
                    created[c as usize] = true;
                    ops.push(Op::Create { c });
                }
            }
        }
    }
    // swarm knob: byte-identical uploads. Payloads are opaque, so nothing forbids a client from
    // sending the very same snapshot bytes for a newer version, or the same history segment twice
    // (two replicas producing the same snapshot; a repeated edit). Storage layers that compare or
    // de-duplicate blobs only show themselves then.
    if r.chance(14, 100) {
        let mut last_snap: std::collections::BTreeMap<u8, Pay> = Default::default();
        let mut last_seg: std::collections::BTreeMap<u8, Pay> = Default::default();
        for op in ops.iter_mut() {
            match op {
                Op::AddSnapshot { c, pay, ch, .. } => {
                    if let Some(prev) = last_snap.get(c) {
                        if r.chance(45, 100) {
                            *pay = prev.clone();
                            *ch = Chunking::Whole;
                        }
                    }
                    last_snap.insert(*c, pay.clone());
                }
                Op::AddVersion { c, pay, ch, .. } => {
                    if let Some(prev) = last_seg.get(c) {
                        if r.chance(25, 100) {
                            *pay = prev.clone();
                            *ch = Chunking::Whole;
                        }
                    }
                    last_seg.insert(*c, pay.clone());
                }
                _ => {}
            }
        }
    }
    ops
}

/// Scripted motif: a chain that starts from another client's version, then a snapshot request naming
/// an ancestor of that base in the other client's chain, then a look at the result.
pub fn foreign_base_motif(r: &mut Rng, n_clients: u8, entry: Entry) -> Vec<Op> {
        let a = r.below(n_clients as u64) as u8;
        let dc = r.below(3) as u8;
        let b = ((a as u16 + 1 + (dc as u16 % (n_clients as u16 - 1))) % n_clients as u16) as u8;
        let mut tag = 900_000u32;
        let mut mk = |r: &mut Rng| -> (Pay, Chunking) {
            tag += 1;
            (Pay { class: r.below(ops::N_CLASSES as u64) as u8, len: r.range(1, 50) as u32, tag }, Chunking::Whole)
        };
        let mut frag = vec![Op::Create { c: b }];
        for _ in 0..r.range(2, 4) {
            let (pay, ch) = mk(r);
            frag.push(Op::AddVersion { c: b, parent: IdArg::Latest, pay, ch });
        }
        frag.push(Op::Create { c: a });
        let (pay, ch) = mk(r);
        frag.push(Op::AddVersion { c: a, parent: IdArg::Foreign { dc, back: r.below(2) as u8 }, pay, ch });
        for _ in 0..r.range(0, 2) {
            let (pay, ch) = mk(r);
            frag.push(Op::AddVersion { c: a, parent: IdArg::Latest, pay, ch });
        }
        let (pay, ch) = mk(r);
        frag.push(Op::AddSnapshot { c: a, v: IdArg::Foreign { dc, back: r.range(1, 3) as u8 }, pay, ch });
        frag.push(Op::GetSnapshot { c: a });
        if entry == Entry::Http {
            frag.retain(|o| !matches!(o, Op::Create { .. }));
        }
    frag
}

pub fn gen_plan(seed: u64, backend: Backend, entry: Entry, focus: Focus, thorough: bool) -> SeqPlan {
    let mut r = Rng::stream(seed, "plan");
    let n_clients = 1 + r.weighted(&[30, 35, 20, 15]) as u8;
    let cfg = gen_cfg(&mut r, focus);
    let page_size = if backend == Backend::Sqlite && r.chance(35, 100) {
        Some(*r.pick(&[512u32, 1024, 2048, 8192, 16384, 65536]))
    } else {
        None
    };
    let page = page_size.unwrap_or(4096);
    let whole_sec = r.chance(30, 100);
    let max_ops = match (backend, thorough) {
        (Backend::Memory, false) => 40,
        (Backend::Memory, true) => 60,
        (Backend::Sqlite, false) => 18,
        (Backend::Sqlite, true) => 30,
    };
    let max_payload = match focus {
        Focus::Payloads => {
            // a few runs carry bodies of exactly 2, 3 and 4 MiB (multiples of typical I/O chunk sizes)
            if r.chance(if thorough { 12 } else { 6 }, 100) {
                (4 << 20) + 1
            } else if thorough {
                (1 << 20) + 2
            } else {
                600_000
            }
        }
        // mostly small, but a few runs of every focus carry bodies beyond 256 KiB and 1 MiB
        _ => {
            if r.chance(6, 100) {
                (1 << 20) + 2
            } else {
                20_000
            }
        }
    };
    let p = GenParams {
        backend,
        entry,
        focus,
        max_ops,
        max_payload,
        whole_sec,
        allow_restart: true,
        allow_seed: true,
        foreign_lock_pct: if backend == Backend::Sqlite && r.chance(25, 100) { 12 } else { 0 },
        allow_empty_payload: entry == Entry::Lib,
    };
    let mut ops = gen_ops(&mut r, &p, n_clients, &cfg, page);
    // swarm knob (rare; in-memory, library entry, where a request costs microseconds): one client's
    // history grows by more than a thousand versions somewhere in the run
    if backend == Backend::Memory && entry == Entry::Lib && r.chance(1, 120) {
        let c = r.below(n_clients as u64) as u8;
        let at = r.below(ops.len() as u64 + 1) as usize;
        ops.insert(at, Op::Bulk { c, n: 1001 + r.below(80) as u16 });
        ops.insert(at, Op::Create { c });
        // seeded counters stay clear of the 32-bit limit by more than this run can add (crossing it takes
        // four billion versions since one snapshot: not a history this study claims anything about)
        for op in ops.iter_mut() {
            if let Op::SeedSnap { since: Some(s), .. } = op {
                *s = (*s).min(u32::MAX - 5000);
            }
        }
    }
    // swarm knob: in some runs clients deliberately quote each other's ids
    if n_clients >= 2 && r.chance(30, 100) {
        let share = r.range(10, 40) as u64;
        for op in ops.iter_mut() {
            if r.chance(share, 100) {
                let foreign = if r.chance(75, 100) {
                    IdArg::Foreign { dc: r.below(3) as u8, back: r.below(5) as u8 }
                } else {
                    IdArg::ForeignSnap { dc: r.below(3) as u8 }
                };
                match op {
                    Op::AddVersion { parent, .. } | Op::GetChild { parent, .. } => *parent = foreign,
                    Op::AddSnapshot { v, .. } => *v = foreign,
                    _ => {}
                }
            }
        }
    }
    // scripted motif (some runs): a chain that starts from another client's version, then a
    // snapshot request naming an ancestor of that base in the other client's chain
    if n_clients >= 2 && r.chance(12, 100) {
        let frag = foreign_base_motif(&mut r, n_clients, entry);
        let at = r.below(ops.len() as u64 + 1) as usize;
        for (i, o) in frag.into_iter().enumerate() {
            ops.insert(at + i, o);
        }
    }
    let start_us = if whole_sec { r.range(0, 86_400) * 1_000_000 } else { r.range(0, 86_400_000_000) };
    let instances = match backend {
        Backend::Sqlite => 1 + r.weighted(&[60, 30, 10]) as u8,
        Backend::Memory => 1 + r.weighted(&[75, 25]) as u8,
    };
    let skews_us: Vec<i64> = (0..instances)
        .map(|_| match r.below(10) {
            0..=5 => 0,
            6 | 7 => r.range(-10_000_000, 10_000_000),
            8 => r.range(-3, 3) * DAY_US,
            _ => r.range(-400, 400) * DAY_US,
        })
        .map(|v| if whole_sec { v / 1_000_000 * 1_000_000 } else { v })
        .collect();
    let route: Vec<u8> = if instances > 1 { (0..ops.len()).map(|_| r.below(instances as u64) as u8).collect() } else { vec![] };
    SeqPlan {
        seed,
        backend,
        entry,
        page_size,
        n_clients,
        cfg,
        start_us,
        ops,
        walk_every: r.range(4, 12) as u8,
        audit: r.chance(70, 100),
        instances,
        skews_us,
        route,
    }
}

// ---------------------------------------------------------------------------------------------
// execution

pub fn exec(plan: &SeqPlan) -> RunOut {
    let mut out = RunOut::default();
    crate::world::begin_run(plan.seed, plan.start_us);
    // swarm knob (HTTP entry): an allow-list naming every client of the history plus two strangers. Listed
    // clients are served exactly as if there were no list, also across restarts, so nothing else changes.
    let allow = if plan.entry == Entry::Http && crate::rng::mix(&[plan.seed, 0xA110]) % 6 == 0 {
        let mut s: HashSet<Uuid> = (0..plan.n_clients).map(|c| client_id(plan.seed, c)).collect();
        s.insert(ops::fresh_id(plan.seed, 5000));
        s.insert(ops::fresh_id(plan.seed, 5001));
        out.bump("cfg.allowlist_naming_every_client");
        Some(s)
    } else {
        None
    };
    let mut w = match World::new(plan.seed, plan.backend, plan.entry, plan.page_size, plan.n_clients, plan.cfg, allow) {
        Ok(w) => w,
        Err(e) => {
            out.harness_error = Some(format!("world setup failed: {e:#}"));
            return out;
        }
    };
    if w.raw_inst {
        out.bump("cfg.servers_own_concrete_sqlite_storage_no_wrapper");
    }
    if plan.instances > 1 {
        if let Err(e) = w.set_instances(plan.instances as usize, plan.skews_us.clone()) {
            out.violations.push(viol(&["C03", "C13"], "instances.cannot_open", format!("opening {} instances on one storage failed: {e:#}", plan.instances)));
            return out;
        }
        out.bump(&format!("cfg.instances.{}", plan.instances));
    } else if plan.skews_us.first().copied().unwrap_or(0) != 0 {
        let _ = w.set_instances(1, plan.skews_us.clone());
    }
    let mut audit = Rng::stream(plan.seed, "audit");
    let mut shape = Digest::default();
    let mut accepted = 0u32;
    for (i, op) in plan.ops.iter().enumerate() {
        if let Some(k) = plan.route.get(i) {
            w.switch_to(*k as usize);
        }
        if let Some(s) = w.step(op, &mut out) {
            shape.add_str(s.req.kind());
            shape.add_str(op_argclass(op));
            shape.add_str(s.resp.class());
            if matches!(s.resp, Resp::AvOk { .. }) {
                accepted += 1;
            }
        }
        if plan.audit {
            w.audit_one(&mut audit, &mut out);
        }
        if plan.walk_every > 0 && (i + 1) % plan.walk_every as usize == 0 {
            w.full_check(&mut out);
        }
        if crate::report::should_stop(&out) {
            break;
        }
    }
    if !crate::report::should_stop(&out) {
        w.full_check(&mut out);
    }
    // an independent observer (SQLite, one run in six): ANOTHER PROCESS opens the directory and asks for
    // each client's first version. Whatever this process believes about the stored state through its own
    // connections, caches and statics, the data directory itself must hold the accepted history.
    if !crate::report::should_stop(&out) && crate::rng::mix(&[plan.seed, 0x0B5E]) % 6 == 0 {
        if let Some(dir) = w.store.dir.clone() {
            crate::vfs::foreign_release_now();
            crate::vfs::foreign_read_release_now();
            let clients: Vec<Id> = w.clients.clone();
            for c in clients {
                let base = match w.model.client(&c) {
                    Some(cl) if !cl.versions.is_empty() => cl.base.unwrap_or(uuid::Uuid::nil()),
                    _ => continue,
                };
                let req = Req::GetChild { c, parent: base };
                match crate::xproc::call(&dir, w.cfg, false, 0, plan.seed, 95_000_000, &req, &Chunking::Whole) {
                    Ok((resp, _)) => {
                        out.bump("probe.other_process_reads_the_directory");
                        let mut m = w.model.clone();
                        let t = sched::now_us();
                        let mm = m.apply(&req, &resp, t, t, false);
                        if let Some(first) = mm.first() {
                            out.violations.push(viol(
                                &["C13", "C07", "C06", "C04", "C01"],
                                "state.other_process_disagrees",
                                format!("another process reading the data directory does not see the accepted history: {} -> {} ({})", req.short(), resp.short(), first.msg),
                            ));
                            break;
                        }
                    }
                    Err(e) => {
                        out.harness_error = Some(format!("observer process could not be run: {e}"));
                        break;
                    }
                }
            }
        }
    }
    out.bump(&format!("cfg.backend.{:?}", plan.backend));
    out.bump(&format!("cfg.entry.{:?}", plan.entry));
    if let Some(ps) = plan.page_size {
        out.bump(&format!("cfg.page_size.{ps}"));
    }
    if accepted > 0 {
        out.cases.push(shape.0);
    }
    out.digest = w.digest.0;
    out.sim_us = (sched::now_us() - plan.start_us).abs();
    out.sample = Some(serde_json::json!({
        "scenario": "seq",
        "seed": plan.seed,
        "backend": format!("{:?}", plan.backend),
        "entry": format!("{:?}", plan.entry),
        "clients": plan.n_clients,
        "cfg": {"snapshot_days": plan.cfg.days, "snapshot_versions": plan.cfg.versions},
        "ops": plan.ops.iter().take(14).map(|o| o.short()).collect::<Vec<_>>(),
        "trace": w.trace.iter().take(14).cloned().collect::<Vec<_>>(),
    }));
    out
}

/// Shrink candidates: drop operations (chunks, then singles), fewer clients, simpler knobs.
pub fn shrink(plan: &SeqPlan) -> Vec<SeqPlan> {
    let mut c = Vec::new();
    let n = plan.ops.len();
    let mut chunk = n / 2;
    while chunk >= 1 {
        let mut i = 0;
        while i + chunk <= n {
            let mut p = plan.clone();
            p.ops.drain(i..i + chunk);
            if p.route.len() >= i + chunk {
                p.route.drain(i..i + chunk);
            }
            c.push(p);
            i += chunk;
        }
        if chunk == 1 {
            break;
        }
        chunk /= 2;
    }
    if plan.audit {
        let mut p = plan.clone();
        p.audit = false;
        c.push(p);
    }
    if plan.instances > 1 {
        let mut p = plan.clone();
        p.instances = 1;
        p.route.clear();
        c.push(p);
    }
    if plan.skews_us.iter().any(|s| *s != 0) {
        let mut p = plan.clone();
        p.skews_us = vec![0; plan.skews_us.len()];
        c.push(p);
    }
    if plan.page_size.is_some() {
        let mut p = plan.clone();
        p.page_size = None;
        c.push(p);
    }
    if plan.walk_every != 0 {
        let mut p = plan.clone();
        p.walk_every = 0;
        c.push(p);
    }
    // shrink payloads and chunkings
    for (i, op) in plan.ops.iter().enumerate() {
        match op {
            Op::AddVersion { pay, ch, .. } | Op::AddSnapshot { pay, ch, .. } => {
                if pay.len > 1 || *ch != Chunking::Whole {
                    let mut p = plan.clone();
                    match &mut p.ops[i] {
                        Op::AddVersion { pay, ch, .. } | Op::AddSnapshot { pay, ch, .. } => {
                            if *ch != Chunking::Whole {
                                *ch = Chunking::Whole;
                            } else {
                                pay.len = (pay.len / 2).max(1);
                            }
                        }
                        _ => {}
                    }
                    c.push(p);
                }
            }
            _ => {}
        }
    }
    c
}

// ---------------------------------------------------------------------------------------------
// C10 small-scope enumeration: chain length 0..=8 x base nil/non-nil x position of the existing
// snapshot (none, each version) x requested v (nil, each version, chain base, fresh, foreign)

pub fn snapgrid_cases() -> Vec<(u8, bool, Option<u8>, IdArgSel)> {
    let mut v = Vec::new();
    for n in 0..=8u8 {
        for base_nonnil in [false, true] {
            let mut snaps: Vec<Option<u8>> = vec![None];
            for s in 1..=n {
                snaps.push(Some(s));
            }
            for sp in snaps {
                let mut sels = vec![IdArgSel::Nil, IdArgSel::Base, IdArgSel::Fresh, IdArgSel::Foreign];
                for k in 1..=n {
                    sels.push(IdArgSel::Pos(k));
                }
                for sel in sels {
                    v.push((n, base_nonnil, sp, sel));
                }
            }
        }
    }
    v
}

#[derive(Clone, Copy, Debug, PartialEq)]
pub enum IdArgSel {
    Nil,
    Base,
    Fresh,
    Foreign,
    /// the k-th accepted version (1-based)
    Pos(u8),
}

pub fn gen_snapgrid(seed: u64, idx: u64, backend: Backend, entry: Entry) -> SeqPlan {
    let cases = snapgrid_cases();
    let (n, base_nonnil, snap_pos, sel) = cases[(idx % cases.len() as u64) as usize];
    let mut r = Rng::stream(seed, "plan");
    let mut tag = 0u32;
    let mut pay = |r: &mut Rng| -> Pay {
        tag += 1;
        Pay { class: r.below(ops::N_CLASSES as u64) as u8, len: r.range(1, 30) as u32, tag }
    };
    let mut ops_v = Vec::new();
    if entry == Entry::Lib {
        ops_v.push(Op::Create { c: 0 });
        ops_v.push(Op::Create { c: 1 });
    }
    // the other client owns two versions (source of foreign ids)
    for _ in 0..2 {
        ops_v.push(Op::AddVersion { c: 1, parent: IdArg::Latest, pay: pay(&mut r), ch: Chunking::Whole });
    }
    for i in 1..=n {
        let parent = if i == 1 { if base_nonnil { IdArg::Fresh(1) } else { IdArg::Nil } } else { IdArg::Latest };
        ops_v.push(Op::AddVersion { c: 0, parent, pay: pay(&mut r), ch: Chunking::Whole });
        if snap_pos == Some(i) {
            // store the existing snapshot while this version is the latest
            ops_v.push(Op::AddSnapshot { c: 0, v: IdArg::Latest, pay: pay(&mut r), ch: Chunking::Whole });
        }
    }
    let varg = match sel {
        IdArgSel::Nil => IdArg::Nil,
        IdArgSel::Base => IdArg::Base,
        IdArgSel::Fresh => IdArg::Fresh(7),
        IdArgSel::Foreign => IdArg::Foreign { dc: 0, back: 0 },
        IdArgSel::Pos(k) => {
            if k == n {
                IdArg::Latest
            } else {
                // Back(j) names versions[len-2-j]
                IdArg::Back(n - 1 - k)
            }
        }
    };
    ops_v.push(Op::GetSnapshot { c: 0 });
    ops_v.push(Op::AddSnapshot { c: 0, v: varg, pay: pay(&mut r), ch: Chunking::Whole });
    ops_v.push(Op::GetSnapshot { c: 0 });
    // and the outcome survives a reopen
    ops_v.push(Op::Restart);
    ops_v.push(Op::GetSnapshot { c: 0 });
    SeqPlan {
        seed,
        backend,
        entry,
        page_size: None,
        n_clients: 2,
        cfg: Cfg { days: 14, versions: 100 },
        start_us: 0,
        ops: ops_v,
        walk_every: 0,
        audit: false,
        instances: 1,
        skews_us: vec![],
        route: vec![],
    }
}

// ---------------------------------------------------------------------------------------------
// C02/C08 small-scope enumeration: chain length 0..=8 x base nil/non-nil x snapshot present or not
// x requested parent p (nil, latest, each older version, chain base, fresh, foreign); each case is a
// probe-then-add pair on the same state followed by a second probe

pub fn parentgrid_cases() -> Vec<(u8, bool, bool, IdArgSel)> {
    let mut v = Vec::new();
    for n in 0..=8u8 {
        for base_nonnil in [false, true] {
            for snap in [false, true] {
                if snap && n == 0 {
                    continue;
                }
                let mut sels = vec![IdArgSel::Nil, IdArgSel::Base, IdArgSel::Fresh, IdArgSel::Foreign];
                for k in 1..=n {
                    sels.push(IdArgSel::Pos(k));
                }
                for sel in sels {
                    v.push((n, base_nonnil, snap, sel));
                }
            }
        }
    }
    v
}

pub fn gen_parentgrid(seed: u64, idx: u64, backend: Backend, entry: Entry) -> SeqPlan {
    let cases = parentgrid_cases();
    let (n, base_nonnil, snap, sel) = cases[(idx % cases.len() as u64) as usize];
    let mut r = Rng::stream(seed, "plan");
    let mut tag = 0u32;
    let mut pay = |r: &mut Rng| -> Pay {
        tag += 1;
        Pay { class: r.below(ops::N_CLASSES as u64) as u8, len: r.range(1, 30) as u32, tag }
    };
    let mut ops_v = Vec::new();
    if entry == Entry::Lib {
        ops_v.push(Op::Create { c: 0 });
        ops_v.push(Op::Create { c: 1 });
    }
    for _ in 0..2 {
        ops_v.push(Op::AddVersion { c: 1, parent: IdArg::Latest, pay: pay(&mut r), ch: Chunking::Whole });
    }
    for i in 1..=n {
        let parent = if i == 1 { if base_nonnil { IdArg::Fresh(1) } else { IdArg::Nil } } else { IdArg::Latest };
        ops_v.push(Op::AddVersion { c: 0, parent, pay: pay(&mut r), ch: Chunking::Whole });
        if snap && i == n.div_ceil(2) {
            ops_v.push(Op::AddSnapshot { c: 0, v: IdArg::Latest, pay: pay(&mut r), ch: Chunking::Whole });
        }
    }
    let parg = match sel {
        IdArgSel::Nil => IdArg::Nil,
        IdArgSel::Base => IdArg::Base,
        IdArgSel::Fresh => IdArg::Fresh(7),
        IdArgSel::Foreign => IdArg::Foreign { dc: 0, back: 0 },
        IdArgSel::Pos(k) => {
            if k == n {
                IdArg::Latest
            } else {
                IdArg::Back(n - 1 - k)
            }
        }
    };
    ops_v.push(Op::GetChild { c: 0, parent: parg.clone() });
    ops_v.push(Op::AddVersion { c: 0, parent: parg.clone(), pay: pay(&mut r), ch: Chunking::Whole });
    ops_v.push(Op::GetChild { c: 0, parent: parg.clone() });
    if entry == Entry::Lib {
        ops_v.push(Op::PresetProbe { k: 0 });
    }
    ops_v.push(Op::Restart);
    ops_v.push(Op::GetChild { c: 0, parent: parg });
    SeqPlan {
        seed,
        backend,
        entry,
        page_size: None,
        n_clients: 2,
        cfg: Cfg { days: 14, versions: 100 },
        start_us: 0,
        ops: ops_v,
        walk_every: 0,
        audit: true,
        instances: 1,
        skews_us: vec![],
        route: vec![],
    }
}
