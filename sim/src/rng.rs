//! One integer decides everything: splitmix64 for derivation, xoshiro256** for streams.

pub fn splitmix(x: &mut u64) -> u64 {
    *x = x.wrapping_add(0x9E37_79B9_7F4A_7C15);
    let mut z = *x;
    z = (z ^ (z >> 30)).wrapping_mul(0xBF58_476D_1CE4_E5B9);
    z = (z ^ (z >> 27)).wrapping_mul(0x94D0_49BB_1331_11EB);
    z ^ (z >> 31)
}

/// Mix several integers into one seed (order sensitive).
pub fn mix(parts: &[u64]) -> u64 {
    let mut h: u64 = 0x243F_6A88_85A3_08D3;
    for p in parts {
        let mut s = h ^ p.wrapping_mul(0x9E37_79B9_7F4A_7C15);
        h = splitmix(&mut s) ^ h.rotate_left(23);
    }
    let mut s = h;
    splitmix(&mut s)
}

/// FNV-1a of a tag, to derive independent streams by name.
pub fn tag(s: &str) -> u64 {
    let mut h: u64 = 0xcbf2_9ce4_8422_2325;
    for b in s.bytes() {
        h ^= b as u64;
        h = h.wrapping_mul(0x0000_0100_0000_01B3);
    }
    h
}

#[derive(Clone, Debug)]
pub struct Rng {
    s: [u64; 4],
}

impl Rng {
    pub fn new(seed: u64) -> Self {
        let mut x = seed;
        let s = [
            splitmix(&mut x),
            splitmix(&mut x),
            splitmix(&mut x),
            splitmix(&mut x),
        ];
        Rng { s }
    }

    /// An independent stream derived from a seed and a tag.
    pub fn stream(seed: u64, name: &str) -> Self {
        Rng::new(mix(&[seed, tag(name)]))
    }

    pub fn next(&mut self) -> u64 {
        let r = self.s[1].wrapping_mul(5).rotate_left(7).wrapping_mul(9);
        let t = self.s[1] << 17;
        self.s[2] ^= self.s[0];
        self.s[3] ^= self.s[1];
        self.s[1] ^= self.s[2];
        self.s[0] ^= self.s[3];
        self.s[2] ^= t;
        self.s[3] = self.s[3].rotate_left(45);
        r
    }

    /// Uniform in 0..n (n > 0).
    pub fn below(&mut self, n: u64) -> u64 {
        debug_assert!(n > 0);
        // multiply-shift; bias negligible for our n
        ((self.next() as u128 * n as u128) >> 64) as u64
    }

    pub fn range(&mut self, lo: i64, hi_incl: i64) -> i64 {
        lo + self.below((hi_incl - lo + 1) as u64) as i64
    }

    pub fn chance(&mut self, num: u64, den: u64) -> bool {
        self.below(den) < num
    }

    pub fn pick<'a, T>(&mut self, xs: &'a [T]) -> &'a T {
        &xs[self.below(xs.len() as u64) as usize]
    }

    /// Weighted pick: returns index.
    pub fn weighted(&mut self, w: &[u32]) -> usize {
        let total: u64 = w.iter().map(|x| *x as u64).sum();
        let mut r = self.below(total.max(1));
        for (i, x) in w.iter().enumerate() {
            if r < *x as u64 {
                return i;
            }
            r -= *x as u64;
        }
        w.len() - 1
    }

    pub fn fill(&mut self, buf: &mut [u8]) {
        let mut i = 0;
        while i < buf.len() {
            let v = self.next().to_le_bytes();
            let n = (buf.len() - i).min(8);
            buf[i..i + n].copy_from_slice(&v[..n]);
            i += n;
        }
    }
}

/// 64-bit FNV-1a over bytes, used for content digests in logs (not for security).
pub fn fnv(bytes: &[u8]) -> u64 {
    let mut h: u64 = 0xcbf2_9ce4_8422_2325;
    for b in bytes {
        h ^= *b as u64;
        h = h.wrapping_mul(0x0000_0100_0000_01B3);
    }
    h
}

/// Incremental digest for event logs.
#[derive(Clone, Copy, Debug)]
pub struct Digest(pub u64);

impl Default for Digest {
    fn default() -> Self {
        Digest(0xcbf2_9ce4_8422_2325)
    }
}

impl Digest {
    pub fn add(&mut self, bytes: &[u8]) {
        for b in bytes {
            self.0 ^= *b as u64;
            self.0 = self.0.wrapping_mul(0x0000_0100_0000_01B3);
        }
        self.0 ^= 0xff;
        self.0 = self.0.wrapping_mul(0x0000_0100_0000_01B3);
    }
    pub fn add_u64(&mut self, v: u64) {
        self.add(&v.to_le_bytes());
    }
    pub fn add_str(&mut self, s: &str) {
        self.add(s.as_bytes());
    }
}
