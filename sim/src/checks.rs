//! Which scenarios serve which property, and the per-property evidence metadata.

use crate::plan::{Job, JobKind};
use crate::seq::Focus;
use crate::world::{Backend, Entry};

fn seq(name: &str, backend: Backend, entry: Entry, focus: Focus, quick: u64, thorough: u64) -> Job {
    Job {
        name: name.to_string(),
        kind: JobKind::Seq { backend, entry, focus },
        quick,
        thorough,
    }
}

fn seq_all(focus: Focus, scale: u64) -> Vec<Job> {
    use Backend::*;
    use Entry::*;
    let tag = format!("{:?}", focus).to_lowercase();
    vec![
        seq(&format!("seq-mem-lib-{tag}"), Memory, Lib, focus, 6000 * scale, 300_000 * scale),
        seq(&format!("seq-mem-http-{tag}"), Memory, Http, focus, 4000 * scale, 200_000 * scale),
        seq(&format!("seq-sqlite-lib-{tag}"), Sqlite, Lib, focus, 1200 * scale, 60_000 * scale),
        seq(&format!("seq-sqlite-http-{tag}"), Sqlite, Http, focus, 1200 * scale, 60_000 * scale),
    ]
}

fn seq_http(focus: Focus, scale: u64) -> Vec<Job> {
    seq_all(focus, scale).into_iter().filter(|j| j.name.contains("http")).collect()
}

fn twin(mode: crate::twin::TwinMode, quick: u64, thorough: u64) -> Job {
    Job {
        name: format!("twin-{:?}", mode).to_lowercase(),
        kind: JobKind::Twin { mode },
        quick,
        thorough,
    }
}

fn iso_all() -> Vec<Job> {
    use Backend::*;
    use Entry::*;
    let mk = |name: &str, backend, entry, quick, thorough| Job {
        name: name.to_string(),
        kind: JobKind::Iso { backend, entry },
        quick,
        thorough,
    };
    vec![
        mk("iso-mem-lib", Memory, Lib, 5000, 250_000),
        mk("iso-mem-http", Memory, Http, 3000, 150_000),
        mk("iso-sqlite-lib", Sqlite, Lib, 1000, 50_000),
        mk("iso-sqlite-http", Sqlite, Http, 1000, 50_000),
    ]
}

fn conc_all() -> Vec<Job> {
    use Backend::*;
    use Entry::*;
    let mk = |name: &str, backend, entry, quick, thorough| Job { name: name.to_string(), kind: JobKind::Conc { backend, entry }, quick, thorough };
    vec![
        mk("conc-mem-http", Memory, Http, 6000, 400_000),
        mk("conc-mem-lib", Memory, Lib, 6000, 400_000),
        mk("conc-sqlite-http", Sqlite, Http, 3000, 150_000),
        mk("conc-sqlite-lib", Sqlite, Lib, 3000, 150_000),
    ]
}

fn fault_all() -> Vec<Job> {
    use crate::fault::FaultLayer::*;
    use Entry::*;
    let mk = |name: &str, entry, layer, quick, thorough| Job { name: name.to_string(), kind: JobKind::Fault { entry, layer }, quick, thorough };
    vec![
        mk("fault-storage-http", Http, StorageCalls, 200, 12_000),
        mk("fault-storage-lib", Lib, StorageCalls, 200, 12_000),
        mk("fault-vfs-http", Http, Vfs, 160, 10_000),
        mk("fault-vfs-lib", Lib, Vfs, 160, 10_000),
    ]
}

fn crash_all() -> Vec<Job> {
    vec![
        Job { name: "crash-http".into(), kind: JobKind::Crash { entry: Entry::Http }, quick: 112, thorough: 6000 },
        Job { name: "crash-lib".into(), kind: JobKind::Crash { entry: Entry::Lib }, quick: 112, thorough: 6000 },
    ]
}

fn wire_all() -> Vec<Job> {
    vec![
        Job { name: "wire-mem".into(), kind: JobKind::Wire { backend: Backend::Memory }, quick: 6000, thorough: 300_000 },
        Job { name: "wire-sqlite".into(), kind: JobKind::Wire { backend: Backend::Sqlite }, quick: 1500, thorough: 80_000 },
    ]
}

pub fn jobs_for(prop: &str) -> Vec<Job> {
    use crate::twin::TwinMode;
    match prop {
        "C02" | "C08" => seq_all(Focus::General, 1),
        "C01" | "C07" => {
            // sequential histories, plus the scheduled batches (forks and orphans under overlap)
            let mut v = seq_all(Focus::General, 1);
            v.extend(conc_all());
            v
        }
        "C18" => {
            let mut v = seq_all(Focus::General, 1);
            v.extend(wire_all());
            v
        }
        "C15" | "C16" => wire_all(),
        "C10" => seq_all(Focus::Snapshots, 1),
        "C11" => {
            let mut v = seq_all(Focus::Snapshots, 1);
            v.extend(conc_all());
            v
        }
        "C03" => conc_all(),
        "C05" => fault_all(),
        "C04" => crash_all(),
        "C19" => vec![Job { name: "compat-corpus".into(), kind: JobKind::Compat, quick: 240, thorough: 4000 }],
        "C12" => seq_all(Focus::Urgency, 1),
        "C06" => seq_all(Focus::Payloads, 1),
        "C14" => {
            let mut v = seq_http(Focus::General, 1);
            v.push(twin(TwinMode::HttpLib, 3000, 150_000));
            v.extend(wire_all());
            v
        }
        "C20" => {
            let mut v = seq_http(Focus::General, 1);
            v.extend(wire_all());
            v
        }
        "C13" => vec![twin(TwinMode::Backends, 2500, 120_000)],
        "C09" => iso_all(),
        _ => vec![],
    }
}

pub struct Meta {
    pub level: &'static str,
    pub rule: &'static str,
    pub assumptions: &'static [&'static str],
}

pub const COMMON_ASSUMPTIONS: &[&str] = &[
    "seeded search, not proof: a clean batch is evidence bounded by the reported counts",
    "real code: Server, InMemoryStorage, SqliteStorage, rusqlite, bundled SQLite 3.46 (pager, WAL, busy handler, unix VFS on tmpfs), the four actix handlers, routing, extractors, default-headers middleware",
    "stubbed: sockets and HTTP/1.1 codec (requests enter at actix's service layer), wall clock and id source (verif feature hooks), thread scheduling (parked real threads, simulator-chosen order), process death and power loss (image capture + reopen), main() of the binary (never run)",
    "trusted: the reference model and oracles, the simulator's unique id source, SQLite and actix below/above the seams",
];

pub fn meta(prop: &str) -> Meta {
    let seq_rule = "cases = seeded sequential symbolic histories (3-60 ops, 1-4 clients, adversarial id classes, clock jumps, chunked uploads, clean restarts) executed against the real server and compared step by step with the reference model; a case is distinct by the hash of its (operation kind, argument class, outcome class) sequence and non-trivial when at least one AddVersion was accepted";
    match prop {
        _ => Meta {
            level: "exploration",
            rule: seq_rule,
            assumptions: COMMON_ASSUMPTIONS,
        },
    }
}

pub const ALL_PROPS: &[&str] = &[
    "C01", "C02", "C03", "C04", "C05", "C06", "C07", "C08", "C09", "C10", "C11", "C12", "C13", "C14", "C15", "C16", "C18", "C19", "C20",
];
