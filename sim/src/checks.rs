//! Which scenarios serve which property, and the per-property evidence metadata.

use crate::plan::{Job, JobKind};
use crate::seq::Focus;
use crate::world::{Backend, Entry};

fn seq(name: &str, backend: Backend, entry: Entry, focus: Focus, quick: u64, thorough: u64) -> Job {
    Job {
        name: name.to_string(),
        kind: JobKind::Seq { backend, entry, focus },
        quick,
        thorough,
    }
}

fn seq_all(focus: Focus, scale: u64) -> Vec<Job> {
    use Backend::*;
    use Entry::*;
    let tag = format!("{:?}", focus).to_lowercase();
    vec![
        seq(&format!("seq-mem-lib-{tag}"), Memory, Lib, focus, 12_000 * scale, 300_000 * scale),
        seq(&format!("seq-mem-http-{tag}"), Memory, Http, focus, 8000 * scale, 200_000 * scale),
        seq(&format!("seq-sqlite-lib-{tag}"), Sqlite, Lib, focus, 2400 * scale, 60_000 * scale),
        seq(&format!("seq-sqlite-http-{tag}"), Sqlite, Http, focus, 2400 * scale, 60_000 * scale),
    ]
}

fn seq_http(focus: Focus, scale: u64) -> Vec<Job> {
    seq_all(focus, scale).into_iter().filter(|j| j.name.contains("http")).collect()
}

fn twin(mode: crate::twin::TwinMode, quick: u64, thorough: u64) -> Job {
    Job {
        name: format!("twin-{:?}", mode).to_lowercase(),
        kind: JobKind::Twin { mode },
        quick,
        thorough,
    }
}

fn iso_all() -> Vec<Job> {
    use Backend::*;
    use Entry::*;
    let mk = |name: &str, backend, entry, quick, thorough| Job {
        name: name.to_string(),
        kind: JobKind::Iso { backend, entry },
        quick,
        thorough,
    };
    vec![
        mk("iso-mem-lib", Memory, Lib, 10_000, 250_000),
        mk("iso-mem-http", Memory, Http, 6000, 150_000),
        mk("iso-sqlite-lib", Sqlite, Lib, 2000, 50_000),
        mk("iso-sqlite-http", Sqlite, Http, 2000, 50_000),
    ]
}

fn conc_all() -> Vec<Job> {
    use Backend::*;
    use Entry::*;
    let mk = |name: &str, backend, entry, quick, thorough| Job { name: name.to_string(), kind: JobKind::Conc { backend, entry }, quick, thorough };
    vec![
        mk("conc-mem-http", Memory, Http, 12_000, 400_000),
        mk("conc-mem-lib", Memory, Lib, 12_000, 400_000),
        mk("conc-sqlite-http", Sqlite, Http, 6000, 150_000),
        mk("conc-sqlite-lib", Sqlite, Lib, 6000, 150_000),
    ]
}

fn fault_all() -> Vec<Job> {
    use crate::fault::FaultLayer::*;
    use Entry::*;
    let mk = |name: &str, entry, layer, quick, thorough| Job { name: name.to_string(), kind: JobKind::Fault { entry, layer }, quick, thorough };
    vec![
        mk("fault-storage-http", Http, StorageCalls, 200, 12_000),
        mk("fault-storage-lib", Lib, StorageCalls, 200, 12_000),
        mk("fault-vfs-http", Http, Vfs, 160, 10_000),
        mk("fault-vfs-lib", Lib, Vfs, 160, 10_000),
    ]
}

fn crash_all() -> Vec<Job> {
    vec![
        Job { name: "crash-http".into(), kind: JobKind::Crash { entry: Entry::Http }, quick: 112, thorough: 6000 },
        Job { name: "crash-lib".into(), kind: JobKind::Crash { entry: Entry::Lib }, quick: 112, thorough: 6000 },
    ]
}

fn wire_all() -> Vec<Job> {
    vec![
        Job { name: "wire-mem".into(), kind: JobKind::Wire { backend: Backend::Memory }, quick: 6000, thorough: 300_000 },
        Job { name: "wire-sqlite".into(), kind: JobKind::Wire { backend: Backend::Sqlite }, quick: 1500, thorough: 80_000 },
    ]
}

pub fn jobs_for(prop: &str) -> Vec<Job> {
    use crate::twin::TwinMode;
    match prop {
        "C02" | "C08" => {
            let mut v = seq_all(Focus::General, 1);
            // compare-and-append / found-gone under overlap: the scheduled batches
            v.extend(conc_all());
            // C02: uploads that break off mid-body must not be stored; C08: another spelling of a
            // parent id must not turn found into not-found / gone
            v.extend(wire_all().into_iter().filter(|j| j.name == "wire-mem"));
            // exhaustive small scope: every (chain length 0..8, base, snapshot?, class of parent)
            let n = crate::seq::parentgrid_cases().len() as u64;
            for (name, b, e) in [("parentgrid-mem-lib", Backend::Memory, Entry::Lib), ("parentgrid-mem-http", Backend::Memory, Entry::Http), ("parentgrid-sqlite-lib", Backend::Sqlite, Entry::Lib), ("parentgrid-sqlite-http", Backend::Sqlite, Entry::Http)] {
                v.push(Job { name: name.into(), kind: JobKind::ParentGrid { backend: b, entry: e }, quick: n, thorough: n });
            }
            v
        }
        "C01" | "C07" => {
            // sequential histories, plus the scheduled batches (forks and orphans under overlap)
            let mut v = seq_all(Focus::General, 1);
            v.extend(conc_all());
            v
        }
        "C18" => {
            let mut v = seq_all(Focus::General, 1);
            v.extend(wire_all());
            v
        }
        "C15" | "C16" => wire_all(),
        "C10" => {
            let mut v = seq_all(Focus::Snapshots, 1);
            // exhaustive small scope: every (chain length 0..8, base, snapshot position, class of v)
            let n = crate::seq::snapgrid_cases().len() as u64;
            for (name, b, e) in [("snapgrid-mem-lib", Backend::Memory, Entry::Lib), ("snapgrid-mem-http", Backend::Memory, Entry::Http), ("snapgrid-sqlite-lib", Backend::Sqlite, Entry::Lib), ("snapgrid-sqlite-http", Backend::Sqlite, Entry::Http)] {
                v.push(Job { name: name.into(), kind: JobKind::SnapGrid { backend: b, entry: e }, quick: n, thorough: n });
            }
            v
        }
        "C11" => {
            let mut v = seq_all(Focus::Snapshots, 1);
            v.extend(conc_all());
            // slow and broken snapshot uploads: id and bytes must still come from one complete upload
            v.extend(wire_all().into_iter().filter(|j| j.name == "wire-mem"));
            v
        }
        "C03" => {
            let mut v = conc_all();
            // one of two overlapping requests is served by a server in another process
            v.push(Job { name: "conc-sqlite-http-xproc".into(), kind: JobKind::ConcXproc { entry: Entry::Http }, quick: 1600, thorough: 40_000 });
            v.push(Job { name: "conc-sqlite-lib-xproc".into(), kind: JobKind::ConcXproc { entry: Entry::Lib }, quick: 1600, thorough: 40_000 });
            v
        }
        "C05" => fault_all(),
        "C04" => {
            let mut v = crash_all();
            // crashes while several requests are in flight (scheduled batches with image capture)
            v.extend(conc_all().into_iter().filter(|j| j.name.contains("sqlite")).map(|mut j| {
                j.quick = 1500;
                j
            }));
            v
        }
        "C19" => vec![Job { name: "compat-corpus".into(), kind: JobKind::Compat, quick: 240, thorough: 4000 }],
        "C12" => seq_all(Focus::Urgency, 1),
        "C06" => {
            // uploads split into chunks, also while other uploads interleave on the same worker
            let mut v = seq_all(Focus::Payloads, 1);
            v.extend(conc_all().into_iter().filter(|j| j.name.contains("http")));
            v.extend(wire_all().into_iter().filter(|j| j.name == "wire-mem"));
            v
        }
        "C14" => {
            let mut v = seq_http(Focus::General, 1);
            v.push(twin(TwinMode::HttpLib, 3000, 150_000));
            v.extend(wire_all());
            // a handler must not answer 5xx where the library outcome is a protocol outcome, also under overlap
            v.extend(conc_all().into_iter().filter(|j| j.name.contains("http")));
            v
        }
        "C20" => {
            let mut v = seq_http(Focus::General, 1);
            v.extend(wire_all());
            // the 500s that only fault injection produces carry the header too
            v.extend(fault_all().into_iter().filter(|j| j.name == "fault-storage-http").map(|mut j| {
                j.quick = 96;
                j
            }));
            v
        }
        "C13" => vec![twin(TwinMode::Backends, 6000, 120_000)],
        "C09" => iso_all(),
        _ => vec![],
    }
}

pub struct Meta {
    pub level: &'static str,
    pub rule: &'static str,
    pub assumptions: &'static [&'static str],
    /// when set, `evaluations` is this counter (crash images, injected faults) instead of runs
    pub eval_counter: Option<&'static str>,
}

pub const COMMON_ASSUMPTIONS: &[&str] = &[
    "seeded search, not proof: a clean batch is evidence bounded by the reported counts",
    "real code: Server, InMemoryStorage, SqliteStorage, rusqlite, bundled SQLite 3.46 (pager, WAL, busy handler, unix VFS on tmpfs), the four actix handlers, routing, extractors, default-headers middleware",
    "stubbed: sockets and HTTP/1.1 codec (requests enter at actix's service layer), wall clock and id source (verif feature hooks), thread scheduling (parked real threads, simulator-chosen order), process death and power loss (image capture + reopen), separate server processes (several instances in one process; in the scheduled SQLite batches of C03 one thread's requests are served by a real second process, one request per atomic scheduler step), main() of the binary (never run)",
    "trusted: the reference model and oracles, the shim VFS's pass-through correctness, the simulator's unique id source, SQLite and actix below/above the seams",
];

pub fn meta(prop: &str) -> Meta {
    const SEQ: &str = "cases = seeded sequential symbolic histories (3-60 ops, 1-4 clients, adversarial id classes incl. other clients' ids, clock jumps, chunked uploads, clean restarts, page-size knob) executed against the real server and compared step by step with the reference model; a case is distinct by the hash of its (operation kind, argument class, outcome class) sequence and non-trivial when at least one AddVersion was accepted";
    const CONC: &str = "cases = (prefix state, batch of 2-4 overlapping requests on 2-3 simulated threads and 1-3 server instances, seeded schedule); distinct by the hash of the full (thread, scheduling-site) interleaving trace; every one is non-trivial (at least two requests); each batch is decided by a brute-force linearizability search over real-time-respecting orders against the reference model";
    const CRASH: &str = "evaluations = recovered crash images: for every mutating VFS call (write/truncate/sync/delete) of every request of each generated history, 1 process-crash image + m power-loss images (quick m=2, thorough m=6; plus nested crash-during-recovery images in thorough); each image is recovered via SqliteStorage::new, integrity-checked, compared with the model state before/after the in-flight request, then served and extended. distinct = distinct (image kind, VFS call kind+file, request kind, in-flight/acked, first surviving-write pattern) cells; non-trivial = all (every image is a real crash point)";
    const FAULT: &str = "evaluations = injected faults that actually fired: for every request of each generated history, every storage-trait call x {fail before effect, fail after effect} plus sampled pairs, and VFS calls x 13 error kinds (single and sticky windows; sampled to 60 per request); each on a copy of the data directory as of just before the request. distinct = distinct (injection, request kind, chain-length class) cells; non-trivial = the fault fired inside a request";
    const WIRE: &str = "cases = seeded servers holding a generated history, optionally restarted with an allow-list (absent/empty/one/many), then 4-40 grammar-generated requests (route x method x client-id form x path-id form x content-type form x body class incl. exactly 100 MiB / 100 MiB+1, dropped connections, empty chunks); distinct by the hash of the (route, class, forms, status) sequence";
    const TWIN: &str = "cases = one symbolic history executed in lock step on several worlds (memory / SQLite / SQLite restarted at random points, or HTTP / library entry), responses compared modulo the bijection of issued ids; distinct by outcome-class sequence, non-trivial when at least one version was accepted";
    const ISO: &str = "cases = multi-client histories that quote other clients' ids, each followed by one solo re-run per client on a fresh world with the same clock timeline; distinct by outcome-class sequence, non-trivial when at least one version was accepted";
    const COMPAT: &str = "cases = (fixture of the committed corpus written by the pinned tree, entry point, restart-midway flag); exhaustive over the corpus (40 fixtures: clean shutdown, leftover WAL, process-crash and power-loss images; 3 page sizes); decides nothing about histories outside the corpus";
    let (level, rule, eval_counter): (&'static str, &'static str, Option<&'static str>) = match prop {
        "C03" => ("exploration", CONC, None),
        "C04" => ("fault_enumeration", CRASH, Some("probe.images_verified")),
        "C05" => ("fault_enumeration", FAULT, Some("probe.fault_injections")),
        "C09" => ("exploration", ISO, None),
        "C13" => ("exploration", TWIN, None),
        "C15" | "C16" => ("exploration", WIRE, None),
        "C19" => ("exploration", COMPAT, None),
        "C02" | "C08" => ("exploration", "cases = seeded sequential symbolic histories (3-60 ops, 1-4 clients, adversarial id classes incl. other clients' ids, clock jumps, chunked uploads, clean restarts, several server instances) compared step by step with the reference model; PLUS an exhaustive enumeration of the small scope: chain length 0..8 x chain base nil/non-nil x snapshot present or not x requested parent (nil, each version incl. the latest, chain base, fresh, another client's version), each as GetChildVersion / AddVersion / GetChildVersion on the same state, on 2 backends x 2 entry points (jobs parentgrid-*). A case is distinct by the hash of its (operation kind, argument class, outcome class) sequence and non-trivial when at least one AddVersion was accepted", None),
        "C10" => ("exploration", "cases = seeded sequential symbolic histories with snapshot focus (as for the other sequential checks: 3-60 ops, 1-4 clients, adversarial id classes incl. other clients' ids, restarts), compared step by step with the window-rule model; PLUS an exhaustive enumeration of the small scope: chain length 0..8 x chain base nil/non-nil x existing snapshot (none or at each version) x requested v (nil, each version, chain base, fresh, another client's version) = 840 cases, each on 2 backends x 2 entry points (jobs snapgrid-*). A case is distinct by the hash of its (operation kind, argument class, outcome class) sequence and non-trivial when at least one AddVersion was accepted", None),
        _ => ("exploration", SEQ, None),
    };
    Meta {
        level,
        rule,
        assumptions: COMMON_ASSUMPTIONS,
        eval_counter,
    }
}

pub const ALL_PROPS: &[&str] = &[
    "C01", "C02", "C03", "C04", "C05", "C06", "C07", "C08", "C09", "C10", "C11", "C12", "C13", "C14", "C15", "C16", "C18", "C19", "C20",
];
