#!/usr/bin/env python3
"""Copies independently confirmed seeded changes into /verif/seeded/<ID>-<variant>/ with a meta.json recording
what they break, what they need, what I ran; and regenerates DESIGN.md §18.
Inputs: /tmp/seedout (round 1: a,b), /tmp/seedout2 (round 2: c,d), lab result files /tmp/mlab_r*.txt (later wins)."""
import json, os, shutil, glob, re
dst='/verif/seeded'
res={}
for f in sorted(glob.glob('/tmp/mlab_r*.txt'), key=lambda x:int(re.search(r'r(\d+)',x).group(1))):
    for l in open(f):
        m=re.match(r'(C\d+/[a-v]) (C\d+) rc=(\d+) ?(.*)',l.strip())
        if m: res[(m.group(1),m.group(2))]=(int(m.group(3)),m.group(4))
rows=[]
if not any(os.path.exists(f'{x}/confirm.json') for x in ['/tmp/seedout','/tmp/seedout12']):
    raise SystemExit('the scratch inputs under /tmp are gone (they are removed at the end of a session): /verif/seeded and DESIGN.md §18 are the record; nothing to do')
for src in ['/tmp/seedout','/tmp/seedout2','/tmp/seedout3','/tmp/seedout5','/tmp/seedout6','/tmp/seedout7','/tmp/seedout8','/tmp/seedout9','/tmp/seedout10','/tmp/seedout11','/tmp/seedout12']:
    if not os.path.exists(f'{src}/confirm.json'): continue
    conf=json.load(open(f'{src}/confirm.json'))
    for d in sorted(glob.glob(f'{src}/C*/*/')):
        key='/'.join(d.rstrip('/').split('/')[-2:]); prop,var=key.split('/')
        c=conf.get(key,{})
        if not c.get('confirmed'): continue
        out=f'{dst}/{prop}-{var}'
        if os.path.isdir(out): shutil.rmtree(out)
        os.makedirs(out)
        for f in os.listdir(d):
            if f=='meta.json': continue
            p=os.path.join(d,f)
            if os.path.isdir(p): shutil.copytree(p, os.path.join(out,f))
            else: shutil.copy(p,out)
        am=json.load(open(os.path.join(d,'meta.json')))
        rc,line=res.get((key,prop),(None,''))
        oracle=re.search(r'\[([\w.]+)\]',line)
        others={p2:(r[0], (re.search(r'\[([\w.]+)\]',r[1]) or [None,None])[1] if r[1] else None) for (k2,p2),r in res.items() if k2==key and p2!=prop}
        meta={
          "id": f"{prop}-{var}", "round": 1 if var in 'ab' else (2 if var in 'cd' else (3 if var in 'ef' else (4 if var in 'gh' else (5 if var in 'ij' else (6 if var in 'kl' else (7 if var in 'mn' else (8 if var in 'op' else (9 if var in 'qr' else (10 if var in 'st' else 11))))))))),
          "breaks_property": prop,
          "summary": am.get("summary"), "needs_to_manifest": am.get("needs_to_manifest"), "files_changed": am.get("files_changed"),
          "origin": "written by an independent sub-agent that was given only the property text and a scratch worktree of /repo (nothing from /verif)",
          "patch": "patch.diff applies to /repo HEAD (with the two fix: commits)" + ("; patch.orig.diff is the sub-agent's original against the hooks commit, re-based by hand because it touched lines changed by a fix: commit" if os.path.exists(os.path.join(out,'patch.orig.diff')) else ""),
          "demonstration": {"install": am.get("demo_install"), "cmd": am.get("demo_cmd")},
          "confirmed_by_me": {"where": "scratch worktree /tmp/seedconfirm of /repo HEAD (tools/confirm_seeded.py)", "patch_applies": c.get("applies"), "existing_suite_passed_with_change": c.get("suite_passed"), "existing_suite_rc": c.get("suite_rc"), "demo_rc_with_change": c.get("demo_rc_with_change"), "demo_rc_without_change": c.get("demo_rc_without_change"), "confirmed": c.get("confirmed")},
          "my_check": {"ran": f"./check {prop} quick with the change applied (tools/lab_matrix.sh: scratch worktree + copy of /verif/sim)", "exit_code": rc, "first_violation": line[:400], "oracle": oracle.group(1) if oracle else None, "caught": rc==1,
                       "other_checks_tried": {k:{"exit_code":v[0],"oracle":v[1]} for k,v in others.items()}},
        }
        json.dump(meta,open(os.path.join(out,'meta.json'),'w'),indent=1)
        rows.append(meta)
print(len(rows),'changes;', sum(1 for m in rows if m['my_check']['caught']),'caught by the check of their own property')
# DESIGN §18 table
out=["", "## 18. Seeded changes: which checks catch which", "",
f"{len(rows)} breaking changes were written by independent sub-agents in eleven rounds (rounds 2-11 asked for",
"subtler changes and listed the ideas already tried; 10, 9, 6, 8, 8, 9, 10, 9, 10 and 9 properties). Each agent was given only one property's text and a scratch worktree of `/repo`",
"(nothing from `/verif`). Each change was kept only after I confirmed, in a scratch worktree of `/repo` HEAD",
"(`tools/confirm_seeded.py`): it applies, compiles, all 65 existing tests pass with it, its demonstration",
"fails with it and passes without it. Four round-1 patches touched lines changed by a `fix:` commit and",
"were re-based by hand (`patch.orig.diff` keeps the original). They live in `/verif/seeded/<id>/`. Each was",
"then run against the quick check of the property it targets (`tools/lab_matrix.sh`: scratch worktree of",
"`/repo` + copy of `/verif/sim` with path dependencies rewritten, so `/repo` stays clean while work",
"continues; the official `git -C /repo apply` / check / `git -C /repo checkout -- .` route via",
"`tools/try_seeded.sh` gives the same verdicts).", "",
"| change | what it does (abridged) | needs | quick check of its property | oracle that fired |",
"|---|---|---|---|---|"]
for m in rows:
    s=(m['summary'] or '').replace('|','/').replace('\n',' ')[:150]
    n=(m['needs_to_manifest'] or '').replace('|','/').replace('\n',' ')[:120]
    c=m['my_check']
    extra=''
    if not c['caught']:
        oc=[f"{k} (exit {v['exit_code']})" for k,v in c['other_checks_tried'].items()]
        extra=' — also tried: '+', '.join(oc) if oc else ''
    out.append(f"| {m['id']} | {s} | {n} | {'caught (exit 1)' if c['caught'] else 'MISSED (exit '+str(c['exit_code'])+')'+extra} | {c['oracle'] or '-'} |")
tail=open('/verif/tools/design18_tail.md').read() if os.path.exists('/verif/tools/design18_tail.md') else ''
s=open('/verif/DESIGN.md').read()
if '\n## 18. Seeded changes' in s: s=s[:s.index('\n## 18. Seeded changes')]
open('/verif/DESIGN.md','w').write(s.rstrip('\n')+'\n'+'\n'.join(out)+'\n'+tail)
