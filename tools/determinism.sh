#!/bin/bash
# Determinism proof: every job's first N seeds are executed twice inside one process, and the whole
# thing is repeated in several processes with different scratch paths; the per-job digests of the
# full event logs (requests, responses, VFS writes with content hashes, schedules) must agree.
# usage: determinism.sh [N=60] [procs=4]
cd "$(dirname "$0")/.."
N=${1:-60}; P=${2:-4}
export CARGO_NET_OFFLINE=true
(cd sim && cargo build --release --offline >/dev/null 2>&1) || { echo "build failed"; exit 2; }
rm -rf /dev/shm/tcss-det; mkdir -p /dev/shm/tcss-det
pids=()
for i in $(seq 1 $P); do
  ( VERIF_SCRATCH=/dev/shm/tcss-det/scratch-$i-$RANDOM VERIF_HOME=$PWD ./sim/target/release/sim selftest $N > /dev/shm/tcss-det/out-$i.txt 2> /dev/shm/tcss-det/err-$i.txt; echo $? > /dev/shm/tcss-det/rc-$i ) &
  pids+=($!)
done
wait
rc=0
for i in $(seq 1 $P); do
  [ "$(cat /dev/shm/tcss-det/rc-$i)" = 0 ] || { echo "process $i: in-process nondeterminism or error"; head -5 /dev/shm/tcss-det/err-$i.txt; rc=2; }
  cmp -s /dev/shm/tcss-det/out-1.txt /dev/shm/tcss-det/out-$i.txt || { echo "process $i digests differ from process 1"; diff /dev/shm/tcss-det/out-1.txt /dev/shm/tcss-det/out-$i.txt | head; rc=2; }
done
echo "jobs: $(wc -l < /dev/shm/tcss-det/out-1.txt)  seeds per job: $N  processes: $P  -> $([ $rc = 0 ] && echo DETERMINISTIC || echo NONDETERMINISTIC)"
rm -rf /dev/shm/tcss-det
exit $rc
