#!/bin/bash
# Development aid: run quick checks against seeded changes in a scratch lab (a worktree of /repo and a
# copy of /verif/sim with path deps rewritten), so /repo stays untouched while work continues.
# usage: lab_matrix.sh <results-file> <ID/variant:prop[,prop...]> ...
set -u
LAB=${LAB:-/tmp/mlab}
RES="$1"; shift
mkdir -p $LAB/verif
if [ ! -d $LAB/repo ]; then git -C /repo worktree add -q --detach $LAB/repo HEAD || exit 2; fi
(cd $LAB/repo && git checkout -q --detach $(git -C /repo rev-parse HEAD) && git reset -q --hard && git clean -fdq)
rsync -a --delete --exclude target --exclude build.log /verif/sim/ $LAB/sim/
sed -i "s#\"/repo/#\"$LAB/repo/#g" $LAB/sim/Cargo.toml
cp /verif/known_findings.json $LAB/verif/ 2>/dev/null; rsync -a --delete /verif/corpus/ $LAB/verif/corpus/
export VERIF_HOME=$LAB/verif CARGO_NET_OFFLINE=true
for item in "$@"; do
  key="${item%%:*}"; props="${item#*:}"
  patch=${SEEDSRC:-/tmp/seedout}/$key/patch.diff
  [ -f "$patch" ] || patch=/verif/seeded/${key/\//-}/patch.diff
  (cd $LAB/repo && git apply "$patch") || { echo "$key APPLYFAIL" >> "$RES"; continue; }
  if ! (cd $LAB/sim && cargo build --release --offline > $LAB/build.log 2>&1); then
    echo "$key BUILDFAIL $(grep -m1 '^error' $LAB/build.log)" >> "$RES"
  else
    for p in ${props//,/ }; do
      out=$(cd $LAB/verif && VERIF_QUICK_CAP_S=${CAP:-18} $LAB/sim/target/release/sim check $p quick 2>&1); rc=$?
      echo "$key $p rc=$rc $(echo "$out" | grep -m1 -E '^violation:' | cut -c1-220)" >> "$RES"
    done
  fi
  (cd $LAB/repo && git checkout -q -- . && git clean -fdq)
done
echo DONE >> "$RES"
