#!/bin/bash
# False-alarm guard: run every claimed quick check under several VERIF_SEED values on the unchanged
# tree; any rc != 0 is a problem to triage. usage: seed_sweep.sh <seed> [<seed>...]
cd "$(dirname "$0")/.."
export VERIF_HOME=$PWD
for s in "$@"; do
  echo "== VERIF_SEED=$s"
  VERIF_SEED=$s tools/run_all.sh ${TIER:-quick}
done
