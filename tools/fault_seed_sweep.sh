#!/bin/bash
# extra false-alarm guard for the fault/crash engines (the ones whose oracles are relaxed under faults)
cd "$(dirname "$0")/.."
for s in "$@"; do for p in C05 C04 C03; do
  out=$(VERIF_SEED=$s ./check $p quick 2>&1); rc=$?
  echo "seed=$s $p rc=$rc $(echo "$out" | grep -E '^runs=' | cut -c1-80)"
  [ $rc -ne 0 ] && echo "$out" | grep -E "^(violation|HARNESS)" | head -3 | cut -c1-600
done; done
