#!/usr/bin/env python3
"""Automatic mutation sweep (sensitivity measure, development aid).

Generates simple mutants (operator / constant / dropped-statement) of the non-test code of
core/src/{server,inmemory}.rs, sqlite/src/lib.rs, server/src/lib.rs, server/src/api/*.rs in the scratch
lab (/tmp/mlab: worktree of /repo + copy of /verif/sim), keeps those that still compile and pass the
existing 65 tests, and runs the quick checks (scaled down) against each until one exits 1.

usage: mutation_sweep.py <out.json> [max_mutants] [scale_pct]
"""
import json, os, re, subprocess, sys, time, random

LAB = "/tmp/mlab"
FILES = ["core/src/server.rs", "core/src/inmemory.rs", "sqlite/src/lib.rs", "server/src/lib.rs",
         "server/src/api/mod.rs", "server/src/api/add_version.rs", "server/src/api/add_snapshot.rs",
         "server/src/api/get_child_version.rs", "server/src/api/get_snapshot.rs"]
PROPS = ["C02", "C01", "C10", "C12", "C13", "C03", "C09", "C15", "C16", "C20", "C05", "C04", "C19", "C06", "C11", "C14", "C18", "C08", "C07"]

def sh(cmd, cwd=None, timeout=900, env=None):
    try:
        r = subprocess.run(cmd, shell=True, cwd=cwd, capture_output=True, text=True, timeout=timeout, env=env, start_new_session=True)
        return r.returncode, r.stdout + r.stderr
    except subprocess.TimeoutExpired:
        subprocess.run(["pkill", "-9", "-f", LAB + "/repo/target/debug/deps"])
        subprocess.run(["pkill", "-9", "-f", LAB + "/sim/target/release/sim"])
        return 124, "TIMEOUT"

OPS = [
    (r" == ", " != "), (r" != ", " == "), (r" && ", " || "), (r" \|\| ", " && "),
    (r" >= ", " > "), (r" <= ", " < "), (r" > ", " >= "), (r" < ", " <= "),
    (r"\.is_none\(\)", ".is_some()"), (r"\.is_some\(\)", ".is_none()"),
    (r"\+ 1\b", "+ 2"), (r"\+ 1\b", "+ 0"), (r"\b3 / 2\b", "2"), (r"\b3 / 2\b", "1"),
    (r"i32 = 5;", "i32 = 4;"), (r"i32 = 5;", "i32 = 6;"), (r"search_len <= 0", "search_len < 0"),
    (r"100 \* 1024 \* 1024", "100 * 1024 * 1024 - 1"), (r"100 \* 1024 \* 1024", "100 * 1024 * 1024 + 1"),
    (r"versions_since: 0", "versions_since: 1"), (r"SnapshotUrgency::High", "SnapshotUrgency::Low"),
    (r"SnapshotUrgency::Low", "SnapshotUrgency::None"), (r"std::cmp::max", "std::cmp::min"),
    (r"BEGIN IMMEDIATE", "BEGIN"), (r"INSERT OR REPLACE", "INSERT OR IGNORE"),
    (r"ErrorForbidden", "ErrorBadRequest"), (r"ErrorGone", "ErrorNotFound"), (r"ErrorNotFound\(\"no such version\"\)", "ErrorGone(\"no such version\")"),
    (r"HttpResponse::Conflict\(\)", "HttpResponse::Ok()"), (r"no-store, max-age=0", "max-age=0"),
    (r"urgency=low", "urgency=high"), (r"urgency=high", "urgency=low"),
    (r"versions_since_snapshot \+ 1", "versions_since_snapshot"), (r"timestamp\.timestamp\(\)", "timestamp.timestamp() + 1"),
    (r"NIL_VERSION_ID\)\.map_err", "Uuid::from_u128(1)).map_err"),
]

def candidate_mutants():
    muts = []
    for f in FILES:
        src = open(os.path.join(LAB, "repo", f)).read()
        cut = src.find("#[cfg(test)]")
        body = src if cut < 0 else src[:cut]
        lines = body.split("\n")
        for i, line in enumerate(lines):
            s = line.strip()
            if s.startswith("//") or s.startswith("#[") or s.startswith("use ") or "log::" in s or not s:
                continue
            for pat, rep in OPS:
                for m in re.finditer(pat, line):
                    new = line[:m.start()] + re.sub(pat, rep, line[m.start():m.end()]) + line[m.end():]
                    if new != line:
                        muts.append((f, i, line, new, f"{pat} -> {rep}"))
            # dropped statement: simple call statements ending in `?;` or `;` that are not `let`/`return`
            if re.match(r"^(txn|self)\.[\w.]+\(.*\)\??;$", s) or re.match(r"^rb\.append_header\(.*\);$", s):
                muts.append((f, i, line, line.replace(s, "// (mutant: statement dropped)"), "drop statement"))
    return muts

def main():
    outp = sys.argv[1]
    maxm = int(sys.argv[2]) if len(sys.argv) > 2 else 60
    scale = sys.argv[3] if len(sys.argv) > 3 else "25"
    os.makedirs(f"{LAB}/verif", exist_ok=True)
    if not os.path.isdir(f"{LAB}/repo"):
        sh(f"git -C /repo worktree add -q --detach {LAB}/repo HEAD")
    head = sh("git -C /repo rev-parse HEAD")[1].strip()
    sh(f"git checkout -q --detach {head} && git reset -q --hard && git clean -fdq", cwd=f"{LAB}/repo")
    sh(f"rsync -a --delete --exclude target --exclude build.log /verif/sim/ {LAB}/sim/ && sed -i 's#\"/repo/#\"{LAB}/repo/#g' {LAB}/sim/Cargo.toml")
    sh(f"cp /verif/known_findings.json {LAB}/verif/; rsync -a --delete /verif/corpus/ {LAB}/verif/corpus/")
    muts = candidate_mutants()
    random.Random(7).shuffle(muts)
    res = json.load(open(outp)) if os.path.exists(outp) else []
    done = {(r["file"], r["line_no"], r["op"]) for r in res}
    env = dict(os.environ, VERIF_HOME=f"{LAB}/verif", CARGO_NET_OFFLINE="true", VERIF_SCALE_PCT=scale, VERIF_QUICK_CAP_S="10")
    n = 0
    for (f, i, old, new, op) in muts:
        if n >= maxm:
            break
        if (f, i + 1, op) in done:
            continue
        path = os.path.join(LAB, "repo", f)
        src = open(path).read().split("\n")
        if src[i] != old:
            continue
        src[i] = new
        open(path, "w").write("\n".join(src))
        rec = {"file": f, "line_no": i + 1, "op": op, "before": old.strip(), "after": new.strip()}
        t0 = time.time()
        rc, out = sh("cargo test --workspace --no-fail-fast --offline 2>&1", cwd=f"{LAB}/repo")
        passed = sum(int(x) for x in re.findall(r"test result: ok\. (\d+) passed", out))
        if "error" in out and "could not compile" in out:
            rec["status"] = "does_not_compile"
        elif rc == 124:
            rec["status"] = "killed_by_existing_tests"
            rec["note"] = "existing suite hangs"
        elif rc != 0 or passed != 65:
            rec["status"] = "killed_by_existing_tests"
            rec["suite_passed"] = passed
        else:
            rc, out = sh("cargo build --release --offline 2>&1", cwd=f"{LAB}/sim", env=env)
            if rc != 0:
                rec["status"] = "sim_build_failed"
            else:
                rec["status"] = "survived_all_checks"
                rec["checks_run"] = []
                for p in PROPS:
                    rc, out = sh(f"{LAB}/sim/target/release/sim check {p} quick 2>&1", cwd=f"{LAB}/verif", env=env)
                    rec["checks_run"].append(p)
                    if rc == 1:
                        m = re.search(r"violation: \[([\w.]+)\]", out)
                        rec["status"] = "killed_by_check"
                        rec["killed_by"] = p
                        rec["oracle"] = m.group(1) if m else None
                        break
                    if rc == 2:
                        rec["status"] = "harness_error"
                        rec["at"] = p
                        rec["tail"] = out[-300:]
                        break
            n += 1
        rec["secs"] = round(time.time() - t0)
        res.append(rec)
        json.dump(res, open(outp, "w"), indent=1)
        print(rec["status"], f, i + 1, op, rec.get("killed_by", ""), rec.get("oracle", ""), flush=True)
        sh("git checkout -q -- . && git clean -fdq", cwd=f"{LAB}/repo")
    ks = [r for r in res if r["status"] in ("killed_by_check", "survived_all_checks", "harness_error")]
    print(f"suite-surviving mutants: {len(ks)}; killed by checks: {sum(1 for r in ks if r['status']=='killed_by_check')}; survived: {sum(1 for r in ks if r['status']=='survived_all_checks')}")

main()
