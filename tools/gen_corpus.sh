#!/bin/bash
# Regenerates /verif/corpus with the simulator built against the PINNED tree (the hooks commit on
# top of the pinned snapshot: storage code byte-identical to the pinned release). Run once; the
# corpus is committed. The scratch worktree and its build output are removed afterwards.
set -eu
PIN=$(git -C /repo log --format=%H --grep='^verif hooks' | tail -1)
LAB=/tmp/corpuslab
rm -rf $LAB; mkdir -p $LAB
git -C /repo worktree add -q --detach $LAB/repo $PIN
rsync -a --exclude target --exclude build.log /verif/sim/ $LAB/sim/
sed -i "s#\"/repo/#\"$LAB/repo/#g" $LAB/sim/Cargo.toml
(cd $LAB/sim && CARGO_NET_OFFLINE=true cargo build --release --offline 2>&1 | tail -1)
rm -rf /verif/corpus
VERIF_HOME=/verif $LAB/sim/target/release/sim gen-corpus /verif/corpus "pinned tree $(git -C /repo rev-parse --short $PIN~1) + hooks $(git -C /repo rev-parse --short $PIN)"
git -C /repo worktree remove --force $LAB/repo
rm -rf $LAB
du -sh /verif/corpus; ls /verif/corpus | wc -l
