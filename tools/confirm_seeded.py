#!/usr/bin/env python3
"""Confirm seeded changes independently in a scratch worktree of /repo (outside /repo and /verif):
compiles, the existing suite passes with the change, the demo fails with it and passes without it.
usage: confirm_seeded.py <srcroot> <out.json> [ID/variant ...]"""
import json, os, re, subprocess, sys, glob, shutil
WT = "/tmp/seedconfirm"
def sh(cmd, cwd=WT, timeout=600):
    try:
        r = subprocess.run(cmd, shell=True, cwd=cwd, capture_output=True, text=True, timeout=timeout)
        return r.returncode, (r.stdout + r.stderr)
    except subprocess.TimeoutExpired:
        subprocess.run(["pkill", "-9", "-f", WT + "/target/debug/deps"])
        return 124, "TIMEOUT (counted as a failure)"
def clean():
    sh("git checkout -q -- . && git clean -fdq -e target")
def main():
    src, outp = sys.argv[1], sys.argv[2]
    which = sys.argv[3:]
    if not os.path.isdir(WT):
        subprocess.run(["git","-C","/repo","worktree","add","-q","--detach",WT,"HEAD"],check=True)
    res = json.load(open(outp)) if os.path.exists(outp) else {}
    dirs = sorted(glob.glob(os.path.join(src,"C*","*","")))
    for d in dirs:
        key = "/".join(d.rstrip("/").split("/")[-2:])
        if which and key not in which: continue
        if key in res and not which: continue
        meta = json.load(open(os.path.join(d,"meta.json")))
        clean()
        r = {"summary": meta.get("summary","")[:300]}
        rc, out = sh(f"git apply --3way {d}/patch.diff || git apply {d}/patch.diff")
        r["applies"] = rc == 0
        if rc != 0:
            r["apply_err"] = out[-500:]; res[key]=r; json.dump(res,open(outp,"w"),indent=1); continue
        sh("git reset -q")
        rc, out = sh("cargo test --workspace --no-fail-fast --offline 2>&1")
        passed = sum(int(x) for x in re.findall(r"test result: ok\. (\d+) passed", out))
        failed = sum(int(x) for x in re.findall(r"(\d+) failed", out))
        r["suite_rc"]=rc; r["suite_passed"]=passed; r["suite_failed"]=failed
        # install demo
        inst = meta.get("demo_install","")
        m = re.search(r"((?:core|sqlite|server)/tests)/([\w.]+\.rs)", inst)
        demos = [f for f in glob.glob(os.path.join(d,"*.rs"))]
        def install():
            if m and demos:
                os.makedirs(os.path.join(WT,m.group(1)),exist_ok=True)
                # pick the demo whose basename matches, else the only one
                srcf = [f for f in demos if os.path.basename(f)==m.group(2)] or demos
                shutil.copy(srcf[0], os.path.join(WT,m.group(1),m.group(2)))
                for extra in glob.glob(os.path.join(d,"*fixtures*")):
                    dst=os.path.join(WT,m.group(1),os.path.basename(extra))
                    if os.path.isdir(dst): shutil.rmtree(dst)
                    shutil.copytree(extra,dst)
                return True
            return False
        r["demo_installed"]=install()
        cmd = meta.get("demo_cmd","")
        rc, out = sh(cmd+" 2>&1")
        r["demo_rc_with_change"]=rc; r["demo_tail_with"]=out[-400:]
        # revert source change only
        sh("git checkout -q -- .")
        rc, out = sh(cmd+" 2>&1")
        r["demo_rc_without_change"]=rc; r["demo_tail_without"]=out[-300:]
        r["confirmed"] = bool(r["applies"] and r["suite_rc"]==0 and passed==65 and r["demo_rc_with_change"]!=0 and r["demo_rc_without_change"]==0)
        res[key]=r
        json.dump(res,open(outp,"w"),indent=1)
        print(key, "CONFIRMED" if r["confirmed"] else "NOT CONFIRMED", r["suite_passed"], r["demo_rc_with_change"], r["demo_rc_without_change"], flush=True)
    clean()
main()
