#!/bin/bash
cd "$(dirname "$0")/.."
export VERIF_THOROUGH_CAP_S=${CAP:-120}
tools/run_all.sh thorough
