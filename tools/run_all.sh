#!/bin/bash
# Runs every claimed check at a tier; prints one line each. usage: run_all.sh [quick|thorough]
cd "$(dirname "$0")/.."
T=${1:-quick}
for p in $(python3 -c "import json;print(' '.join(c['property_id'] for c in json.load(open('MANIFEST.json'))['checks']))"); do
  s=$(date +%s); out=$(./check $p $T 2>&1); rc=$?; e=$(date +%s)
  echo "$p rc=$rc $((e-s))s $(echo "$out" | grep -E '^runs=' | cut -c1-90) $(echo "$out" | grep -c '^VIOLATION') viol $(echo "$out" | grep -c KNOWN-FINDING) known"
  if [ $rc -ne 0 ]; then echo "$out" | grep -E "^(violation|HARNESS)" | head -3 | cut -c1-400; fi
done
