#!/bin/bash
# usage: try_seeded.sh <patch.diff> <prop> [prop...]  -- applies a seeded change to /repo, runs the
# quick checks, and always restores /repo afterwards. Prints one line per property.
set -u
PATCH="$1"; shift
cd /repo || exit 2
if [ -n "$(git status --porcelain)" ]; then echo "REPO DIRTY, refusing"; exit 2; fi
if ! git apply --3way "$PATCH" >/dev/null 2>&1; then
  if ! git apply "$PATCH"; then echo "PATCH DOES NOT APPLY: $PATCH"; git checkout -q -- .; exit 2; fi
fi
git reset -q
for p in "$@"; do
  out=$(cd /verif && VERIF_QUICK_CAP_S=${CAP:-18} ./check "$p" quick 2>&1); rc=$?
  line=$(echo "$out" | grep -m1 -E "^violation:" | cut -c1-260)
  echo "$(basename $(dirname $(dirname $PATCH)))/$(basename $(dirname $PATCH)) $p rc=$rc $line"
  if [ $rc -eq 2 ]; then echo "$out" | tail -5; fi
done
git checkout -q -- . ; git clean -fdq
