#!/usr/bin/env python3
"""Regenerates /verif/MANIFEST.json from the table below (kept in one place so it stays valid)."""
import json, subprocess, os
HERE = os.path.dirname(os.path.dirname(os.path.abspath(__file__)))

CLAIMED = {
 # id: (level, technique, level text, level note, design ref)
 "C01": ("exploration", "deterministic simulation: seeded sequential histories vs reference model, chain walk oracle", "Seeded search over request histories (both backends, library and HTTP entry, clean restarts) with a per-step model comparison and end-to-end chain walks; evidence, not proof.", "model + oracles trusted; sockets/HTTP codec stubbed", "§8 C01"),
 "C02": ("exploration", "deterministic simulation: seeded histories vs reference model (compare-and-append oracle)", "Every AddVersion of every generated history (incl. verbatim resends, several server instances, an exhaustive small-scope grid of 280 cases x 4 configurations) is compared with the model's accept/reject decision, id freshness, stored record and unchanged-on-reject projection.", "model + oracles trusted; id source is the simulator's", "§8 C02"),
 "C06": ("exploration", "deterministic simulation: chunked-upload transport seam + byte-exact model comparison", "Payload bytes compared byte-for-byte across chunkings (incl. uploads of several requests interleaving on one worker at the await points), sizes around page/overflow boundaries and at 256 KiB / 1 MiB / 100 MiB, byte classes, restarts, verbatim resends.", "real socket path not covered (HTTP codec stubbed)", "§8 C06"),
 "C07": ("exploration", "deterministic simulation: temporal re-read oracle inside seeded histories", "Previously accepted versions are re-read after every later operation, restart and at the end and compared with the model record.", "model trusted", "§8 C07"),
 "C08": ("exploration", "deterministic simulation: probe-then-add pairs on the same state + model table", "GetChildVersion answers are compared with the model and, directly, with the AddVersion issued on the same state (random histories, an exhaustive small-scope grid of 280 cases x 4 configurations ending - library entry - with a model-free probe of a storage-created client whose latest id is non-nil, scheduled batches where the two overlap, and the wire grammar's re-spelled parent ids).", "model trusted", "§8 C08"),
 "C10": ("exploration", "deterministic simulation: seeded snapshot-focused histories vs window rule model", "AddSnapshot decisions compared with the five-version window rule in seeded histories, plus an exhaustive enumeration of the small scope (chain length 0..8 x base x snapshot position x class of v = 840 cases on both backends and entries); snapshot position monotonic; declined => projection unchanged.", "open corner (v = non-nil chain base) accepts either outcome", "§8 C10"),
 "C11": ("exploration", "deterministic simulation: GetSnapshot vs model + walk from snapshot", "After every history step GetSnapshot equals the last accepted upload (id and bytes) and the chain is walked from it to the latest.", "model trusted", "§8 C11"),
 "C12": ("exploration", "deterministic simulation: simulated clock jumps + swarm-chosen targets vs exact i128 thresholds", "Urgency of every accepted AddVersion compared with exact thresholds over swarm-chosen targets (incl. integer extremes), clock jumps biased to thresholds, counters from real histories or seeded through the storage seam.", "counter convention (before/after this request) latched per run; sub-second truncation allowed", "§8 C12"),
 "C14": ("exploration", "deterministic simulation: HTTP responses decoded and compared with model outcome", "Every HTTP response is decoded (status, protocol headers, content type, body) and compared with the model outcome incl. absence of inapplicable headers; lock-step HTTP-vs-library twins; wire-form variants; scheduled HTTP batches (no 5xx where the library yields a protocol outcome).", "requests enter at actix service layer", "§8 C14"),
 "C18": ("exploration", "deterministic simulation: before/after projection of all clients around every non-mutating outcome", "Full protocol-visible projection of all clients before and after every read / rejected write must be equal; storage access log shows no committed write.", "projection covers ids the run has seen", "§8 C18"),
 "C20": ("exploration", "deterministic simulation: global monitor on every HTTP response", "A monitor checks Cache-Control: no-store on every HTTP response the sequential, wire (all routes/methods/refusals/unknown routes) and storage-fault (500s) scenarios produce.", "requests enter at actix service layer", "§8 C20"),
}
CLAIMED.update({
 "C03": ("exploration", "deterministic simulation: seeded scheduler over parked real threads + brute-force linearizability search against the reference model", "2-4 overlapping requests on 2-3 simulated threads (in-memory; one or several SQLite instances on one directory; HTTP and library entry) under random / sticky / PCT / forced-preemption schedules at storage-call, transaction begin/end, chunk and lock-wait granularity; every batch must have a real-time-respecting order reproducing all responses and the final state; stall faults exercise the busy-timeout path with bounded-liveness check afterwards. In a share of the SQLite batches, and in two dedicated jobs, one thread's requests are served by a server in ANOTHER PROCESS on the same directory (child process, one atomic scheduler step per request), so cross-process locking is real and process-wide state of the code under test is not shared; threads may be sessions (a request's id argument is taken from the previous response of its thread).", "a request served by the other process is never preempted by the parent's threads; known finding F1 (known_findings.json)", "§8 C03"),
 "C04": ("fault_enumeration", "deterministic simulation: shim SQLite VFS, crash image at every mutating VFS call (process-crash + sampled power-loss images), recovery + model comparison", "For each generated history every write/truncate/sync/delete issued while a request executes is a crash point; at each, the process-crash image and m power-loss images (synced content + kept/dropped/torn later writes) are recovered through SqliteStorage::new, integrity-checked, compared with the model state before/after the in-flight request, then served and extended; thorough adds crashes during recovery. Every built-in unix VFS is shimmed under its own name and images include directory entries made outside SQLite's file I/O (lock directories, side files). Crashes while several requests are in flight: scheduled SQLite batches with image capture, where the recovered state must be a commit-order prefix (containing every acknowledged write) of a valid ordering of the batch.", "power-loss subsets are sampled, not enumerated; power-loss model = SQLite's own crash-test assumptions (sync is a barrier, sector-granular tearing); kill -9 is simulated by image capture", "§8 C04"),
 "C05": ("fault_enumeration", "deterministic simulation: fault injection at every storage call (before/after effect) and at VFS calls of every request, on a directory snapshot per request", "For every request of each generated history every storage-trait call is failed before and after taking effect (plus sampled pairs), and VFS calls are failed with I/O error kinds (IOERR, FULL, FSYNC, CANTOPEN, BUSY, NOMEM; single and sticky windows); SQLITE_INTERRUPT is delivered inside statements (progress handler on every connection: the points between the statements of one storage call); the transaction begin of a request fails 3, 70 or 140 times in a row before the storage recovers; oracle: error response (or, for absorbed VFS errors, exact model outcome), state == before or == after only past the commit point, follow-up requests served without waiting.", "in-memory backend out of scope (property says persistent backend); VFS injections sampled to 60 per request", "§8 C05"),
 "C09": ("exploration", "deterministic simulation: two-run non-interference (multi-client history vs each client's projection re-run alone)", "Multi-client histories that deliberately quote other clients' ids are executed, then each client's own requests are re-run alone on a fresh world with the same clock timeline; responses must be identical modulo renaming of issued ids.", "model trusted for id-role naming", "§8 C09"),
 "C13": ("exploration", "deterministic simulation: lock-step differential run (memory vs SQLite vs SQLite restarted at random points)", "The same symbolic history runs in lock step on the three worlds under one whole-second simulated clock; responses compared modulo id bijection after every step, final states compared.", "histories stay within the storage contract (new_client only for absent clients)", "§8 C13"),
 "C15": ("exploration", "deterministic simulation: grammar-generated malformed-message faults against stateful servers", "Route x method x client-id form x path-id form x content-type form x body class (incl. multi-chunk, dropped connection, slow client on the paused runtime clock, exactly 100 MiB and 100 MiB + 1) x Content-Encoding x conditional/range headers x HTTP version against servers holding state; never 5xx/panic, refused requests change nothing and (for bad client ids) open no transaction; ambiguous spellings must be refused or served exactly per model.", "100 MiB bodies only on the in-memory backend in the quick tier", "§8 C15"),
 "C16": ("exploration", "deterministic simulation: allow-list introduced by restart over populated storage; access-log oracle", "Servers populated without a list are restarted with absent/empty/one/many-id lists; unlisted well-formed requests must get exactly 403 with an empty storage access log and unchanged projection on all four endpoints; listed clients are served per model.", "restart = new WebServer over the same storage object (in-memory) or reopened directory (SQLite)", "§8 C16"),
 "C19": ("exploration", "deterministic simulation as producer: committed corpus of data directories written by the pinned tree (clean, leftover WAL, crash images), opened and extended by the current tree", "Exhaustive over the committed corpus only (40 fixtures x entry x restart-midway): each fixture (copied into directories that may carry URI-special, blank or non-ASCII names) must open - in half of the cases first in a fresh process -, serve exactly its recorded logical content, accept appended versions and a snapshot, and survive a reopen.", "decides nothing about histories outside the corpus", "§8 C19"),
})

NA = {
 "C17": "property of main()'s wiring, observable only by running the real executable over real sockets/env; no seam below actix HttpServer, no schedule/clock/fault dimension of its own (DESIGN.md §9)",
}
PENDING = {}  # filled below for properties whose engines are not built yet

def main():
    props = [json.loads(l)["id"] for l in open(os.path.join(HERE, "properties.jsonl"))]
    hooks = subprocess.run(["git","-C","/repo","log","--format=%h %s"],capture_output=True,text=True).stdout.splitlines()
    hook_commits = [l.split()[0] for l in hooks if l.split(" ",1)[1].startswith("verif hooks")]
    checks = []
    for p in props:
        if p in CLAIMED:
            lvl, tech, text, note, ref = CLAIMED[p]
            checks.append({
                "property_id": p,
                "quick_cmd": f"./check {p} quick",
                "thorough_cmd": f"./check {p} thorough",
                "evidence_file": f"/verif/evidence/{p}.json",
                "replay_cmd_template": "./check replay {path}",
                "engine": "tcss-sim",
                "level_claimed": {"category": lvl, "text": text, "design_ref": ref},
                "level_note": note,
                "technique": tech,
            })
    na = []
    for p in props:
        if p in NA:
            na.append({"property_id": p, "reason": NA[p]})
        elif p not in CLAIMED:
            na.append({"property_id": p, "reason": "not claimed yet: the scenario engine serving it is not built at this commit (see DESIGN.md §14 build order)"})
    m = {
        "version": 1,
        "setup_cmd": "cd /verif/sim && CARGO_NET_OFFLINE=true cargo build --release --offline",
        "hooks": {
            "guard": "cargo feature `verif` of taskchampion-sync-server-core",
            "enable": "the simulator crate /verif/sim depends on /repo/core by path with features=[\"verif\"] (plus /repo/sqlite and /repo/server by path); every check runs `cargo build --release --offline` first, so it rebuilds from /repo's working tree",
            "baseline_off_cmd": "cd /repo && cargo test --workspace --no-fail-fast --offline",
            "source_commits": hook_commits,
            "add_only": True,
        },
        "engines": [{"name": "tcss-sim", "path": "/verif/sim", "serves_properties": sorted(CLAIMED.keys()), "kind_free_text": "deterministic simulator: seeded scheduler over parked real threads, simulated clock/ids, wrapper storage, chunked transport, shim SQLite VFS with crash images and I/O faults, reference model oracles"}],
        "checks": checks,
        "not_applicable": na,
        "notes": "Exit codes: 0 held, 1 VIOLATION, 2 harness error. VERIF_SEED (default 1) seeds everything. Known findings: /verif/known_findings.json.",
    }
    json.dump(m, open(os.path.join(HERE, "MANIFEST.json"), "w"), indent=1)
    print("claimed:", sorted(CLAIMED.keys()))
if __name__ == "__main__":
    main()
